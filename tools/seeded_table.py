#!/venv/bin/python
"""Rewrite DESIGN.md section 11's table from /verif/seeded/*/meta.json."""
import glob, json, os, re

rows = []
for m in sorted(glob.glob('/verif/seeded/*/meta.json')):
    d = json.load(open(m))
    sid = os.path.basename(os.path.dirname(m))
    notes = d.get('what_it_needs', '').replace('\n', ' ').replace('|', '/')
    notes = re.sub(r'\s+', ' ', notes)[:260]
    own = d['property']
    q = d.get('checks_quick', {})
    caught = d.get('caught_by', [])
    sigs = []
    for p in caught:
        sigs += q.get(p, {}).get('signatures', [])[:2]
    cb = ', '.join(caught) or '**none**'
    if d.get('superseded'):
        cb = 'superseded by a fix: commit (no longer changes behaviour)'
    rows.append('| %s | %s | %s | %s |' % (sid, notes, cb, '; '.join(s.replace('|', '/') for s in sigs[:3])))
table = '\n'.join(['| Seeded change | What it changes / needs (from its notes) | Caught by (quick tier unless marked) | Signatures |', '|---|---|---|---|'] + rows)
p = '/verif/DESIGN.md'
s = open(p).read()
a, b = '<!-- SEEDED-TABLE-BEGIN -->', '<!-- SEEDED-TABLE-END -->'
if a in s:
    s = s[:s.index(a) + len(a)] + '\n' + table + '\n' + s[s.index(b):]
    open(p, 'w').write(s)
print(len(rows), 'rows')

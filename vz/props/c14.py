"""C14 bounds safety: every public read method, driven with at least one argument outside the real
extent, must refuse (IndexError / dimensionality error) or return exactly the item Python indexing
denotes (negative ordinals) or an empty array (empty / reversed sample window)."""
import random

import numpy as np

from .. import env, files, monitors, oracles, reads

ID, TITLE, LEVEL = 'C14', 'bounds safety', 'exploration'
RULE = ('case = one SGZ file (3D regular / irregular / 2D; padded extent larger than the real one) x all public read '
        'methods x out-of-range argument classes {just outside, far, negative, inside padding, empty, reversed, '
        'absent coordinate, 2D/3D mismatch}; a call is non-trivial when at least one argument is outside its valid '
        'range; distinct = (file kind, method, argument class); verdict per call from exception type / returned value')
ASSUMPTIONS = ['the valid range of each argument is the real extent given by the O-SPEC header decode']

OK_EXC = ('IndexError', 'WrongDimensionalityError')


def cases(tier, seed):
    rng = random.Random('C14/%s' % seed)
    out = []
    fx = files.fixtures()
    pick = [f for f in fx if 'padding/' not in f] + rng.sample([f for f in fx if 'padding/' in f], 3 if tier == 'quick' else 16)
    for rel in pick:
        out.append({'id': 'fix:' + rel, 'file': {'kind': 'fixture', 'rel': rel}, 'n': 60 if tier == 'quick' else 300, 'cost': 2})
    reps = 3 if tier == 'quick' else 10
    for rep in range(reps):
        for fam, lays in files.LAYOUTS_3D.items():
            for rate, bs in (lays if tier != 'quick' else rng.sample(lays, min(3, len(lays)))):
                # every axis unaligned so that padding exists on every axis
                shape = []
                for b in bs:
                    nb = rng.randint(1, 2)
                    shape.append(max(2, nb * b - rng.randint(1, min(3, b - 1))))
                if np.prod([oracles.pad(s, b) for s, b in zip(shape, bs)]) > 1_500_000:
                    shape = [max(2, b - rng.randint(1, 3)) for b in bs]
                if np.prod([oracles.pad(s, b) for s, b in zip(shape, bs)]) > 3_000_000:
                    continue
                d = files.wspec_desc(rng, shape, rate, bs, narr=rng.choice([2, 3]))
                out.append({'id': 'w3:%s:%s:%s:%d' % (fam, rate, 'x'.join(map(str, bs)), rep), 'file': d,
                            'n': 80 if tier == 'quick' else 300, 'cost': 2})
        for rate, bs in (files.LAYOUTS_2D if tier != 'quick' else rng.sample(files.LAYOUTS_2D, 4)):
            # (several trace blocks now and then: a reversed box with many blocks between its ends)
            nT = max(2, rng.choice([bs[1] - 1, bs[1] + 1, 2 * bs[1] - 2, 3] + ([6 * bs[1] + 1] * 2 if bs[1] <= 16 else [])))
            nZ = rng.choice([7, 50, 301]) if bs[2] > 301 else bs[2] + 3
            d = files.wspec_desc(rng, (nT, nZ), rate, bs, version=[0, 2, 9], narr=2)
            out.append({'id': 'w2:%s:%s:%d' % (rate, 'x'.join(map(str, bs)), rep), 'file': d, 'n': 60, 'cost': 1})
        for rate, bs in [(4, (4, 4, 512)), (8, (8, 8, 64))]:
            nI, nX = rng.randint(5, 7), rng.randint(5, 7)
            holes = sorted(rng.sample(range(1, nI * nX), rng.randint(1, 8)))
            d = files.wspec_desc(rng, (nI, nX, rng.randint(5, 40)), rate, bs, version=[0, 2, 9], holes=holes,
                                 il=[rng.choice([1, 5]), 1], narr=3)
            out.append({'id': 'wi:%s:%s:%d' % (rate, 'x'.join(map(str, bs)), rep), 'file': d, 'n': 60, 'cost': 1})
    return out


def oob_values(n, padded, rng):
    """(value, class) ordinals outside [0, n)."""
    out = [(n, 'just-outside'), (n + 1, 'just-outside'), (n + 1000, 'far'), (10 ** 9, 'far'), (-1, 'negative'),
           (-n, 'negative'), (-n - 1, 'negative'), (-10 ** 6, 'negative')]
    if padded > n:
        out += [(rng.randrange(n, padded), 'padded'), (padded - 1, 'padded')]
    out.append((padded, 'just-outside-padded'))
    return out


def oob_ranges(n, padded, rng):
    """((lo, hi), class) half-open ranges not within [0, n] or empty / reversed."""
    lo = rng.randrange(n)
    out = [((0, n + 1), 'just-outside'), ((lo, n + 1000), 'far'), ((-1, max(1, lo)), 'negative'), ((-5, -1), 'negative'),
           ((lo, lo), 'empty'), ((n, n), 'empty'), ((min(n - 1, lo + 1), lo), 'reversed') if lo + 1 <= n - 1 or lo > 0 else ((n - 1, 0), 'reversed'),
           ((n, n + 1), 'just-outside')]
    if n >= 3:
        # reversed with both ends on the axis and far apart (several blocks between them)
        out += [((n - 1, 1), 'reversed'), ((n, 1), 'reversed'), ((n - 1, max(1, lo // 2)), 'reversed')]
    out = [o for o in out if o[0][0] >= o[0][1] or o[0][0] < 0 or o[0][1] > n]
    if padded > n:
        out += [((lo, padded), 'padded'), ((n, padded), 'padded'), ((lo, rng.randrange(n + 1, padded + 1)), 'padded')]
    out.append(((lo, padded + 1), 'just-outside-padded'))
    return out


def inrange(n, rng):
    lo = rng.randrange(n)
    return lo, rng.randrange(lo + 1, n + 1)


def gen_calls_3d(sp, V, gm, rng, n):
    """[(target-expr, method, args, class, ref)]; ref = value that may legitimately be returned."""
    nI, nX, nZ = sp.shape
    pI, pX, pZ = sp.padded
    nT = sp.ntr
    calls = []
    il, xl, zs = sp.ilines(), sp.xlines(), sp.samples()

    def trace_ref(t):
        g = t if gm is None else int(gm[t])
        return V[g // nX, g % nX]
    for v, c in oob_values(nI, pI, rng):
        calls.append(('r', 'read_inline', (v,), c, V[v] if -nI <= v < 0 else None))
    for v, c in oob_values(nX, pX, rng):
        calls.append(('r', 'read_crossline', (v,), c, V[:, v] if -nX <= v < 0 else None))
    for v, c in oob_values(nZ, pZ, rng):
        calls.append(('r', 'read_zslice', (v,), c, V[:, :, v] if -nZ <= v < 0 else None))
    absent_il = [int(il[-1] + (il[1] - il[0])), int(il[0] - (il[1] - il[0])), int(il[0]) + 10 ** 6]
    if abs(int(il[1] - il[0])) > 1:
        absent_il.append(int(il[0]) + 1)
    for v in absent_il:
        calls.append(('r', 'read_inline_number', (v,), 'absent-coordinate', None))
        calls.append(('f', 'iline', (v,), 'absent-coordinate', None))
    absent_xl = [int(xl[-1] + (xl[1] - xl[0])), int(xl[0] - (xl[1] - xl[0]))]
    for v in absent_xl:
        calls.append(('r', 'read_crossline_number', (v,), 'absent-coordinate', None))
        calls.append(('f', 'xline', (v,), 'absent-coordinate', None))
    dz = float(zs[1] - zs[0])
    for v in [float(zs[-1] + dz), float(zs[0] - dz), float(zs[0] + dz / 2)] + \
            ([float(zs[-1] + dz * (pZ - nZ))] if pZ > nZ else []):
        calls.append(('r', 'read_zslice_coord', (v,), 'absent-coordinate', None))
    # sub-volumes: exactly one axis bad, or several
    for axis in range(3):
        for (lo, hi), c in oob_ranges((nI, nX, nZ)[axis], (pI, pX, pZ)[axis], rng):
            box = [inrange(nI, rng), inrange(nX, rng), inrange(nZ, rng)]
            box[axis] = (lo, hi)
            calls.append(('r', 'read_subvolume', tuple(x for b in box for x in b), c, None))
    # traces by ordinal
    for v, c in oob_values(nT, pI * pX, rng):
        ref = trace_ref(v) if -nT <= v < 0 else None
        calls.append(('r', 'get_trace', (v,), c, ref))
        calls.append(('f', 'trace', (v,), c, ref))
        calls.append(('r', 'gen_trace_header', (v,), c, 'hdr:%d' % (nT + v) if -nT <= v < 0 else None))
        calls.append(('f', 'header', (v,), c, 'hdr:%d' % (nT + v) if -nT <= v < 0 else None))
    if gm is not None:
        # irregular: ordinals between the trace count and the grid size address no trace
        for v in {nT, (nT + nI * nX) // 2, nI * nX - 1}:
            if nT <= v < nI * nX:
                calls.append(('r', 'get_trace', (v,), 'hole-ordinal', None))
                calls.append(('r', 'gen_trace_header', (v,), 'hole-ordinal', None))
    # ordinals that are not whole numbers denote no item at all (refused with whatever error; never rounded to a neighbouring item)
    for m_, a_ in (('get_trace', (-0.5,)), ('read_inline', (-0.9,)), ('read_crossline', (0.5,)), ('read_zslice', (nZ - 0.5,)), ('gen_trace_header', (0.25,))):
        calls.append(('r', m_, a_, 'non-integral-ordinal', None))
    # sample windows
    for (lo, hi), c in oob_ranges(nZ, pZ, rng):
        t = rng.randrange(nT)
        ref = None
        if c in ('empty', 'reversed') and 0 <= lo <= nZ and 0 <= hi <= nZ:
            ref = 'empty'
        calls.append(('r', 'get_trace', (t, lo, hi), 'window-' + c, ref))
    calls.append(('r', 'get_trace', (rng.randrange(nT), None, nZ + 1), 'window-just-outside', None))
    calls.append(('r', 'get_trace', (rng.randrange(nT), -1, None), 'window-negative', None))
    if gm is None:
        calls.append(('r', 'get_trace_by_coord', (0, float(zs[0] - dz), float(zs[-1])), 'absent-coordinate', None))
        calls.append(('r', 'get_trace_by_coord', (0, float(zs[0]), float(zs[-1] + 2 * dz)), 'absent-coordinate', None))
        calls.append(('r', 'get_trace_by_coord', (nT, float(zs[0]), float(zs[-1])), 'just-outside', None))
        if not np.any(np.isclose(zs, 0.0)):
            # the coordinate 0 on an axis that does not hold it (it is a coordinate like any other, not "bound omitted")
            t = rng.randrange(nT)
            # (as an exclusive stop, the coordinate one interval past the last sample is valid: not used as a stop when that is 0)
            stop_ok = bool(np.isclose(float(zs[-1]) + dz, 0.0))
            for a in ((t, 0, float(zs[-1])), (t, 0.0, None)) + (() if stop_ok else ((t, float(zs[0]), 0), (t, None, 0.0), (t, None, 0))):
                calls.append(('r', 'get_trace_by_coord', a, 'absent-coordinate-zero', None))
            calls.append(('r', 'read_zslice_coord', (0,), 'absent-coordinate-zero', None))
    # diagonals
    for name, lo_id, hi_id in (('read_correlated_diagonal', -nX + 1, nI), ('read_anticorrelated_diagonal', 0, nI + nX - 1)):
        for v in (hi_id, hi_id + 5, lo_id - 1, lo_id - 100, 10 ** 6):
            calls.append(('r', name, (v,), 'just-outside' if v in (hi_id, lo_id - 1) else 'far', None))
        d = rng.randrange(lo_id, hi_id)
        if name == 'read_correlated_diagonal':
            L = len([i for i in range(nI) if 0 <= i - d < nX])
        else:
            L = len([i for i in range(nI) if 0 <= d - i < nX])
        for (lo, hi), c in oob_ranges(L, L, rng):
            calls.append(('r', name, (d, lo, hi), 'crop-' + c, None))
        # a bound given on its own (the other end is the end of the diagonal / trace) is checked like a pair
        calls += [('r', name, (d, L), 'crop-one-sided', None), ('r', name, (d, L + 3), 'crop-one-sided', None), ('r', name, (d, None, L + 1), 'crop-one-sided', None),
                  ('r', name, (d, -1), 'crop-one-sided', None), ('r', name, (d, None, None, nZ), 'window-one-sided', None),
                  ('r', name, (d, None, None, None, nZ + 1), 'window-one-sided', None), ('r', name, (d, None, None, -1), 'window-one-sided', None)]
        for (lo, hi), c in oob_ranges(nZ, pZ, rng):
            calls.append(('r', name, (d, None, None, lo, hi), 'window-' + c, None))
    # emulator ordinals
    for v, c in oob_values(nZ, pZ, rng):
        calls.append(('f', 'depth_slice', (v,), c, V[:, :, v] if -nZ <= v < 0 else None))
    # dimensionality mismatch
    calls.append(('r', 'read_subplane', (0, 1, 0, 1), 'dim-mismatch', None))
    rng.shuffle(calls)
    return calls


def gen_calls_2d(sp, V, rng, n):
    nT, nZ = sp.shape
    pT, pZ = sp.padded
    calls = []
    for v, c in oob_values(nT, pT, rng):
        ref = V[v] if -nT <= v < 0 else None
        calls.append(('r', 'get_trace', (v,), c, ref))
        calls.append(('f', 'trace', (v,), c, ref))
        calls.append(('r', 'gen_trace_header', (v,), c, 'hdr:%d' % (nT + v) if -nT <= v < 0 else None))
        calls.append(('f', 'header', (v,), c, 'hdr:%d' % (nT + v) if -nT <= v < 0 else None))
    for axis in range(2):
        for (lo, hi), c in oob_ranges((nT, nZ)[axis], (pT, pZ)[axis], rng):
            box = [inrange(nT, rng), inrange(nZ, rng)]
            box[axis] = (lo, hi)
            calls.append(('r', 'read_subplane', tuple(x for b in box for x in b), c, None))
    for (lo, hi), c in oob_ranges(nZ, pZ, rng):
        ref = 'empty' if c in ('empty', 'reversed') and 0 <= lo <= nZ and 0 <= hi <= nZ else None
        calls.append(('r', 'get_trace', (rng.randrange(nT), lo, hi), 'window-' + c, ref))
    zs = sp.samples()
    dz = float(zs[1] - zs[0])
    t = rng.randrange(nT)
    calls.append(('r', 'get_trace_by_coord', (t, float(zs[0] - dz), float(zs[-1])), 'absent-coordinate', None))
    calls.append(('r', 'get_trace_by_coord', (t, float(zs[0]), float(zs[-1] + 2 * dz)), 'absent-coordinate', None))
    if not np.any(np.isclose(zs, 0.0)):
        stop_ok = bool(np.isclose(float(zs[-1]) + dz, 0.0))
        for a in ((t, 0, float(zs[-1])), (t, 0.0, None)) + (() if stop_ok else ((t, float(zs[0]), 0), (t, None, 0.0))):
            calls.append(('r', 'get_trace_by_coord', a, 'absent-coordinate-zero', None))
    for m, a in (('read_inline', (0,)), ('read_crossline', (0,)), ('read_zslice', (0,)), ('read_subvolume', (0, 1, 0, 1, 0, 1)),
                 ('read_volume', ()), ('read_correlated_diagonal', (0,)), ('read_anticorrelated_diagonal', (0,)),
                 ('read_inline_number', (1,)), ('read_crossline_number', (1,))):
        calls.append(('r', m, a, 'dim-mismatch', None))
    for acc in ('iline', 'xline', 'depth_slice'):
        calls.append(('f', acc, (0,), 'dim-mismatch', None))
    rng.shuffle(calls)
    return calls


def run_case(case, ctx):
    import seismic_zfp
    from seismic_zfp.read import SgzReader
    rng = ctx['rng']
    path, truth = files.build(case['file'], ctx['scratch'])
    sp = oracles.Spec(path)
    V = sp.decode()
    gm = None
    if not sp.is2d and sp.ntr != sp.grid_traces:
        gm = np.flatnonzero(sp.mask())
    kind = '2d' if sp.is2d else ('irregular' if gm is not None else '3d')
    arrs = sp.arrays()
    calls = gen_calls_2d(sp, V, rng, case['n']) if sp.is2d else gen_calls_3d(sp, V, gm, rng, case['n'])
    bad, keys, tally = [], set(), {}
    n = 0
    for warm in (False, True, 'remote'):
        # (third pass: the same calls through the remote backend - a client object instead of a path)
        with (SgzReader(path) if warm != 'remote' else SgzReader(monitors.FakeBlob(path))) as r, \
                (seismic_zfp.open(path) if warm != 'remote' else seismic_zfp.open(monitors.FakeBlob(path))) as f:
            if warm == 'remote':
                kind_tag = 'remote'
            if warm is True:
                # warm state: every stored header array already loaded through the tracefield API (bounds must not depend on that)
                for k in sp.stored:
                    r.get_tracefield_values(k)
                    f.get_tracefield_values(k)
            for tgt, m, args, cls, ref in calls:
                n += 1
                keys.add('%s|%s|%s' % (kind, m if tgt == 'r' else 'emulator.' + m, cls))
                label = m if tgt == 'r' else 'emulator.%s[]' % m
                try:
                    if tgt == 'r':
                        got = getattr(r, m)(*args)
                    else:
                        got = getattr(f, m)[args[0]]
                except Exception as e:  # noqa
                    t = type(e).__name__
                    tally['%s|%s|%s' % (label, cls, t)] = tally.get('%s|%s|%s' % (label, cls, t), 0) + 1
                    if t not in OK_EXC and cls != 'non-integral-ordinal':
                        bad.append({'sig': '%s:%s:%s:raises-%s' % (kind, label, cls, t),
                                    'detail': '%s%s -> %s: %s' % (label, args, t, str(e)[:200])})
                    continue
                # returned something
                ok = False
                if isinstance(ref, str) and ref.startswith('hdr:'):
                    i = int(ref[4:])
                    g = i if gm is None else int(gm[i])
                    exp = sp.header(i, arrs, grid_index=g)
                    ok = {int(k): int(v) for k, v in got.items() if int(k) != 0} == exp
                elif isinstance(ref, str) and ref == 'empty':
                    ok = np.asarray(got).size == 0
                elif ref is not None:
                    ok = reads.same(got, ref) is None
                tally['%s|%s|%s' % (label, cls, 'returned-ok' if ok else 'RETURNED-DATA')] = \
                    tally.get('%s|%s|%s' % (label, cls, 'returned-ok' if ok else 'RETURNED-DATA'), 0) + 1
                if not ok:
                    desc = 'dict' if isinstance(got, dict) else 'array shape %s' % (np.asarray(got).shape,)
                    if not isinstance(got, dict) and np.asarray(got).size == 0 and cls.endswith(('empty', 'reversed')):
                        continue          # empty result for an empty / reversed range: nothing fabricated
                    bad.append({'sig': '%s:%s:%s:returned-data' % (kind, label, cls),
                                'detail': '%s%s returned %s for an out-of-range request (real extent %s, padded %s)'
                                          % (label, args, desc, sp.shape, sp.padded)})
    return {'violations': bad, 'counters': {'oob_calls': n, 'outcomes': tally}, 'strata': ['kind:' + kind] + sorted(
        'class:' + k.split('|')[2] for k in keys), 'key': case['id'], 'nontrivial': n >= 30,
        'keys': sorted(keys)}


def finalize(tier, cases, results, counters, strata):
    reasons = []
    for s in ['kind:3d', 'kind:2d', 'kind:irregular', 'class:padded', 'class:negative', 'class:far',
              'class:just-outside', 'class:absent-coordinate', 'class:absent-coordinate-zero', 'class:dim-mismatch', 'class:window-padded',
              'class:window-reversed', 'class:window-empty']:
        if s not in strata:
            reasons.append('required stratum not hit: ' + s)
    keys = set()
    for r in results.values():
        keys.update(r.get('keys', []))
    return {'distinct_method_argclass_combinations': len(keys)}, reasons

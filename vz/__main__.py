import argparse
import os
import sys

from . import driver


def main():
    ap = argparse.ArgumentParser(prog='vz')
    sub = ap.add_subparsers(dest='cmd', required=True)
    c = sub.add_parser('check')
    c.add_argument('prop')
    c.add_argument('--tier', default=None, choices=['quick', 'thorough'])
    c.add_argument('--seed', type=int, default=None)
    c.add_argument('-v', action='store_true')
    r = sub.add_parser('replay')
    r.add_argument('path')
    k = sub.add_parser('case')
    k.add_argument('prop')
    k.add_argument('case_id')
    k.add_argument('--tier', default='quick')
    k.add_argument('--seed', type=int, default=0)
    a = ap.parse_args()
    if a.cmd == 'case':
        import importlib
        os.environ['VERIF_REPLAY'] = '1'
        mod = importlib.import_module('vz.props.' + a.prop.lower())
        c = [c for c in mod.cases(a.tier, a.seed) if c['id'] == a.case_id]
        if not c:
            sys.exit('no such case')
        sys.exit(driver.run_check(a.prop, a.tier, a.seed, only_case=c[0], verbose=True))
    if a.cmd == 'check':
        tier = a.tier or os.environ.get('VERIF_TIER') or 'quick'
        seed = a.seed if a.seed is not None else int(os.environ.get('VERIF_SEED', '0') or 0)
        sys.exit(driver.run_check(a.prop, tier, seed, verbose=a.v))
    elif a.cmd == 'replay':
        sys.exit(driver.replay(a.path))


if __name__ == '__main__':
    main()

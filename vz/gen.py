"""Generators: cubes, SEG-Y files (through segyio.create), trace-header models."""
import warnings

import numpy as np
import segyio

from .oracles import KEYS, WIDTH

warnings.filterwarnings('ignore')

TF = segyio.TraceField
# fields that drive segyio / converter behaviour and are therefore set by the geometry, not the header model
RESERVED = {37, 109, 115, 117, 189, 193, 215}   # 215 scales the delay recording time in segyio
FREE_KEYS = [k for k in KEYS if k not in RESERVED]

VALUE_KINDS = ['smooth', 'noise', 'const', 'zeros', 'ramp', 'huge', 'neg', 'tiny']


def cube(shape, seed=0, kind='smooth', dead=None):
    """Finite float32 cube; every trace differs from every other (position watermark)."""
    if kind.startswith('dead'):
        kind, dead = 'smooth', {'deadends': 'first-last', 'deadborder': 'border'}.get(kind, 'first')
    rng = np.random.default_rng(seed)
    g = np.meshgrid(*[np.arange(s, dtype=np.float64) for s in shape], indexing='ij')
    if kind == 'smooth':
        a = sum(np.sin(0.3 * (i + 1) * x + rng.uniform(0, 6)) for i, x in enumerate(g)) * 100
        a = a + 5 * rng.standard_normal(shape)
    elif kind == 'noise':
        a = rng.standard_normal(shape) * 1000
    elif kind == 'const':
        a = np.full(shape, 1234.5)
    elif kind == 'zeros':
        a = np.zeros(shape)
    elif kind == 'ramp':
        a = sum((i + 1) * 7.0 * x for i, x in enumerate(g))
    elif kind == 'huge':
        a = rng.choice([-3e38, 3e38, 1.0, -1.0, 1e30], size=shape) * rng.uniform(0.5, 1.0, size=shape)
    elif kind == 'neg':
        a = -np.abs(rng.standard_normal(shape) * 50) - 1
    elif kind == 'tiny':
        a = rng.standard_normal(shape) * 1e-36
    else:
        raise ValueError(kind)
    if kind not in ('const', 'zeros', 'huge', 'tiny'):
        # watermark: offset unique per trace (all axes but the last)
        w = np.zeros(shape[:-1])
        for i, x in enumerate(g[:-1]):
            w = w * 37 + x[..., 0]
        a = a + w[..., None] * 0.37
    a = np.ascontiguousarray(a, dtype=np.float32)
    if dead:
        # dead (all-zero) traces where a reader's self-test or a first/last-trace heuristic looks: the first line, or the first and last
        a[0] = 0
        if dead == 'first-last':
            a[-1] = 0
        if dead == 'border' and a.ndim == 3:
            # a dead rim: also the first crossline(s), as many as the first n_xl traces of a crossline-sorted file cover
            k = -(-a.shape[1] // a.shape[0])
            a[:, :k] = 0
            a[-1] = 0
            a[:, -1] = 0
    return a


def _base_header(nz, dt_us, t0):
    return {TF.TRACE_SAMPLE_COUNT: nz, TF.TRACE_SAMPLE_INTERVAL: dt_us % 65536 if dt_us < 32768 else 0,
            TF.DelayRecordingTime: int(t0)}


def make_segy(path, data, ilines=None, xlines=None, dt_us=4000, t0=0, fmt=1, headers=None, ext=0, sorting=2):
    """Regular 3D SEG-Y.  headers: {key: array over (n_il*n_xl) in file trace order}."""
    n_il, n_xl, n_z = data.shape
    ilines = np.arange(1, n_il + 1) if ilines is None else np.asarray(ilines)
    xlines = np.arange(1, n_xl + 1) if xlines is None else np.asarray(xlines)
    spec = segyio.spec()
    spec.ilines, spec.xlines = ilines, xlines
    spec.samples = t0 + np.arange(n_z) * dt_us / 1000.0
    spec.format, spec.sorting, spec.ext_headers = fmt, sorting, ext
    headers = headers or {}
    with segyio.create(path, spec) as f:
        f.bin[segyio.BinField.Interval] = dt_us
        f.bin[segyio.BinField.Samples] = n_z
        f.bin[segyio.BinField.Format] = fmt
        f.bin[segyio.BinField.JobID] = 4242
        f.text[0] = segyio.tools.create_text_header({1: 'verif generated', 2: 'shape %s' % (data.shape,)})
        for e in range(ext):
            f.text[1 + e] = segyio.tools.create_text_header({1: 'extended header %d' % e})
        t = 0
        order = [(i, x) for i in range(n_il) for x in range(n_xl)] if sorting == 2 else \
                [(i, x) for x in range(n_xl) for i in range(n_il)]
        for i, x in order:
            h = _base_header(n_z, dt_us, t0)
            h[TF.INLINE_3D], h[TF.CROSSLINE_3D], h[TF.offset] = int(ilines[i]), int(xlines[x]), 0
            for k, arr in headers.items():
                h[k] = int(arr[t])
            f.header[t] = h
            f.trace[t] = data[i, x]
            t += 1
    vendor_bytes(path)
    return path


def make_segy_traces(path, traces, headers, dt_us=4000, t0=0, fmt=1, ext=0):
    """Unstructured creation (irregular / 2D): traces (n, nz), headers = list of dicts per trace."""
    n, nz = len(traces), len(traces[0])
    spec = segyio.spec()
    spec.samples = t0 + np.arange(nz) * dt_us / 1000.0
    spec.format, spec.tracecount, spec.ext_headers = fmt, n, ext
    with segyio.create(path, spec) as f:
        f.bin[segyio.BinField.Interval] = dt_us
        f.bin[segyio.BinField.Samples] = nz
        f.bin[segyio.BinField.Format] = fmt
        f.bin[segyio.BinField.JobID] = 4243
        f.text[0] = segyio.tools.create_text_header({1: 'verif generated (unstructured)'})
        for e in range(ext):
            f.text[1 + e] = segyio.tools.create_text_header({1: 'extended header %d' % e})
        for t in range(n):
            h = _base_header(nz, dt_us, t0)
            h.update({int(k): int(v) for k, v in headers[t].items()})
            f.header[t] = h
            f.trace[t] = traces[t]
    vendor_bytes(path)
    return path


def vendor_bytes(path):
    """Non-zero content in the parts of the binary file header no SEG-Y revision assigns (a vendor tag): a copy that goes
    through named fields only loses it.  The assigned two-byte fields that do not drive how the traces are read (everything
    in 3200-3259 except sample interval, sample count and format code) get arbitrary content as well, values above 255
    included (both bytes of a field in use)."""
    import os
    import random as _random
    r = _random.Random(os.path.getsize(path))
    with open(path, 'r+b') as f:
        for lo, hi in ((3300, 3500), (3520, 3600)):
            f.seek(lo)
            f.write(bytes(1 + (7 * i + lo) % 250 for i in range(hi - lo)))
        f.seek(3200)
        b = bytearray(f.read(60))
        for off in [4, 8, 12, 14, 18, 22, 26, 28] + list(range(30, 60, 2)):
            if off in (16, 20, 24):
                continue
            width = 4 if off in (4, 8) else 2
            kind = r.choice(['zero', 'small', 'big', 'neg'])
            v = {'zero': 0, 'small': r.randint(1, 255), 'big': r.randint(256, 32767), 'neg': -r.randint(1, 32768)}[kind]
            b[off:off + width] = int(v).to_bytes(width, 'big', signed=True)
        f.seek(3200)
        f.write(bytes(b))


def field_range(k):
    return (-32768, 32767) if WIDTH[k] == 2 else (-2 ** 31, 2 ** 31 - 1)


def header_model(rng, n, nfields=None, inside_heuristic=True, classes=None):
    """Random trace-header content over n traces.
    Returns ({key: int64 array}, {key: class}).  Classes:
      const     same non-zero value everywhere
      vary      differs between first and last trace (arbitrary inside)
      dup       exact copy of an earlier 'vary' field
      extreme   varying, hits the field's min and max
      neg       varying negative values
      zerofirst zero in first trace, non-zero in last
      sparse    zero in some traces (the first among them), one and the same other value in the rest (a mute time, a static on a few traces)
    and, outside the heuristic's precondition (inside_heuristic=False):
      hidden    first == last but varies inside
      coincide  equals another varying field on first and last trace only
    """
    classes = classes or ['const', 'vary', 'dup', 'extreme', 'neg', 'zerofirst', 'sparse']
    if not inside_heuristic:
        classes = classes + ['hidden', 'coincide']
    nfields = nfields if nfields is not None else rng.randint(1, 8)
    keys = sorted(rng.sample(FREE_KEYS, nfields))
    out, cls = {}, {}
    varying = []
    for k in keys:
        lo, hi = field_range(k)
        c = rng.choice(classes)
        if c in ('dup', 'coincide') and not varying:
            c = 'vary'
        if c in ('hidden', 'coincide') and n < 3:
            c = 'vary'
        if c == 'const':
            v = rng.choice([1, -1, lo, hi, rng.randint(lo, hi)])
            a = np.full(n, v if v != 0 else 7, dtype=np.int64)
        elif c == 'vary':
            a = np.array([rng.randint(max(lo, -10 ** 6), min(hi, 10 ** 6)) for _ in range(n)], dtype=np.int64)
        elif c == 'extreme':
            a = np.array([rng.choice([lo, hi, 0, 1, -1]) for _ in range(n)], dtype=np.int64)
            a[0], a[-1] = lo, hi
        elif c == 'neg':
            a = -np.array([rng.randint(1, min(hi, 30000)) for _ in range(n)], dtype=np.int64)
        elif c == 'zerofirst':
            a = np.array([rng.randint(1, 1000) for _ in range(n)], dtype=np.int64)
            a[0] = 0
        elif c == 'sparse':
            v = rng.choice([120, -4, rng.randint(1, min(hi, 30000))])
            a = np.array([v if rng.random() < 0.5 else 0 for _ in range(n)], dtype=np.int64)
            a[0], a[-1] = 0, v
        elif c == 'dup':
            src = rng.choice(varying)
            lo2, hi2 = field_range(src)
            if WIDTH[k] < WIDTH[src] and (out[src].min() < lo or out[src].max() > hi):
                a = np.array([rng.randint(-100, 100) for _ in range(n)], dtype=np.int64)
                c = 'vary'
            else:
                a = out[src].copy()
        elif c == 'hidden':
            a = np.array([rng.randint(1, 1000) for _ in range(n)], dtype=np.int64)
            a[-1] = a[0]
            a[n // 2] = a[0] + 1
        elif c == 'coincide':
            src = rng.choice(varying)
            a = np.clip(out[src].copy(), lo, hi)
            a[n // 2] = np.clip(a[n // 2] + 1, lo, hi) if a[n // 2] < hi else a[n // 2] - 1
            if a[0] != out[src][0] or a[-1] != out[src][-1]:
                c = 'vary'
        if c in ('vary', 'neg') and a[0] == a[-1]:
            a[-1] = a[0] - 1 if a[0] > lo else a[0] + 1
        if c in ('vary', 'extreme', 'neg', 'zerofirst', 'sparse') and a[0] != a[-1]:
            # a varying field must not coincide on (first,last) with an earlier varying field by accident
            while any(out[v][0] == a[0] and out[v][-1] == a[-1] for v in varying):
                a[-1] = a[-1] - 1 if a[-1] > lo else a[-1] + 2
            varying.append(k)
        out[k], cls[k] = a, c
    return out, cls


def heuristic_precondition(all_fields):
    """The property's stated domain for 'heuristic' detection, evaluated on the true source headers
    {key: array over traces}: every field constant or differing first/last, and no two differing
    fields coinciding on both first and last unless they are equal everywhere."""
    var = []
    for k, a in all_fields.items():
        if np.all(a == a[0]):
            continue
        if a[0] == a[-1]:
            return False
        var.append(k)
    for i, k in enumerate(var):
        for k2 in var[:i]:
            a, b = all_fields[k], all_fields[k2]
            if a[0] == b[0] and a[-1] == b[-1] and not np.array_equal(a, b):
                return False
    return True


def source_headers(path):
    """O-SRC: {key: int64 array over traces} for all 89 fields, as segyio reads the file."""
    with segyio.open(path, strict=False, ignore_geometry=True) as f:
        return {k: np.asarray(f.attributes(k)[:], dtype=np.int64) for k in KEYS}


def source_traces(path):
    with segyio.open(path, strict=False, ignore_geometry=True) as f:
        return np.ascontiguousarray(f.trace.raw[:], dtype=np.float32)

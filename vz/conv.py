"""Sources and writer routes for the writer-side checks.

A source descriptor is JSON-able; build_source() materialises it (SEG-Y through segyio.create, or a
NumPy cube) and returns what the harness knows to be true about it, with samples/headers taken from
what segyio reads back from the file on disk (O-SRC, IBM rounding included)."""
import os
import subprocess
import sys

import numpy as np
import segyio

from . import env, gen, oracles
from .oracles import KEYS


def src_desc(rng, geom='3d', shape=None, **kw):
    d = {'geom': geom, 'shape': list(shape) if shape else None,
         'il': [rng.choice([1, 0, 10, -5, 1000, 2 ** 20, -(2 ** 20)]), rng.choice([1, 1, 2, -1, 7, -2, 1000])],
         'xl': [rng.choice([1, 0, 100, -30, 2000]), rng.choice([1, 1, 3, -1, -7, 2])],
         'dt': rng.choice([4000, 2000, 1000, 500, 250, 125, 3000, 8000, 2300, 333, 1001, 1999]), 't0': rng.choice([0, 0, 0, 8, -12, 100, 1000, 50]),
         'fmt': rng.choice([1, 5]), 'ext': 0, 'cubeseed': rng.randrange(1 << 20),
         'valkind': rng.choice(['smooth', 'smooth', 'smooth', 'noise', 'ramp', 'neg', 'const', 'zeros', 'huge', 'tiny', 'deadfirst', 'deadends', 'deadborder']),
         'hdr': {'seed': rng.randrange(1 << 20), 'nfields': rng.randint(0, 6), 'inside': True}, 'sorting': 2}
    d.update(kw)
    return d


def build_source(src, scratch, name='src.sgy'):
    """-> dict(path, kind, data, ilines, xlines, samples, headers{key: array over traces}, ...)"""
    import random
    geom = src['geom']
    shape = tuple(src['shape'])
    data = gen.cube(shape, src.get('cubeseed', 0), src.get('valkind', 'smooth'))
    if src.get('fmt') in (2, 3, 8) and geom not in ('numpy', 'zgy'):
        # integer sample formats (4-, 2-, 1-byte two's complement): integral values filling 90 % of the format's range
        lim = {2: 2 ** 31 - 1, 3: 32767, 8: 127}[src['fmt']]
        m = float(np.max(np.abs(data))) or 1.0
        data = np.round(data.astype(np.float64) / m * lim * 0.9).astype(np.float32)
    out = {'geom': geom, 'desc': src}
    dt, t0 = src.get('dt', 4000), src.get('t0', 0)
    if geom == 'numpy':
        nI, nX, nZ = shape
        out.update(data=data, ilines=src['il'][0] + src['il'][1] * np.arange(nI), xlines=src['xl'][0] + src['xl'][1] * np.arange(nX),
                   samples=t0 + dt / 1000.0 * np.arange(nZ), path=None, ntraces=nI * nX)
        return out
    if geom == 'zgy':
        return build_zgy(src, scratch, data, out)
    path = scratch.file(name)
    hr = random.Random(src['hdr']['seed'])
    if geom == '3d':
        nI, nX, nZ = shape
        il = src['il'][0] + src['il'][1] * np.arange(nI)
        xl = src['xl'][0] + src['xl'][1] * np.arange(nX)
        hm, cls = gen.header_model(hr, nI * nX, src['hdr']['nfields'], src['hdr'].get('inside', True))
        gen.make_segy(path, data, il, xl, dt_us=dt, t0=t0, fmt=src['fmt'], headers=hm, ext=src.get('ext', 0),
                      sorting=src.get('sorting', 2))
        out.update(ilines=il, xlines=xl, ntraces=nI * nX, hdr_classes=cls)
    elif geom == 'irregular':
        nI, nX, nZ = shape
        il = src['il'][0] + src['il'][1] * np.arange(nI)
        xl = src['xl'][0] + src['xl'][1] * np.arange(nX)
        present = np.ones((nI, nX), bool)
        present.reshape(-1)[np.asarray(src['holes'], dtype=int)] = False
        pos = [(i, x) for i in range(nI) for x in range(nX) if present[i, x]]
        hm, cls = gen.header_model(hr, len(pos), src['hdr']['nfields'], src['hdr'].get('inside', True))
        hdrs = []
        for t, (i, x) in enumerate(pos):
            h = {189: int(il[i]), 193: int(xl[x]), 37: 0}
            for k, a in hm.items():
                h[k] = int(a[t])
            hdrs.append(h)
        gen.make_segy_traces(path, [data[i, x] for i, x in pos], hdrs, dt_us=dt, t0=t0, fmt=src['fmt'], ext=src.get('ext', 0))
        out.update(ilines=il, xlines=xl, ntraces=len(pos), present=present, positions=pos, hdr_classes=cls)
    elif geom == '2d':
        nT, nZ = shape
        hm, cls = gen.header_model(hr, nT, src['hdr']['nfields'], src['hdr'].get('inside', True))
        how = src.get('how2d', 'nonumbers')
        if how == 'nonumbers':
            hdrs = [{k: int(a[t]) for k, a in hm.items()} for t in range(nT)]
            for t in range(nT):
                hdrs[t].setdefault(1, t + 1)
                hdrs[t].setdefault(21, 100 + t)
                # source-receiver offset: segyio reads it as a third geometry axis when it varies
                off = src.get('offset2d')
                if off:
                    hdrs[t][37] = {'vary': 100 + 25 * t, 'const': 1500, 'repeat': 100 + 50 * (t % 3), 'desc': 5000 - 10 * t}[off]
            gen.make_segy_traces(path, list(data), hdrs, dt_us=dt, t0=t0, fmt=src['fmt'], ext=src.get('ext', 0))
        elif how in ('single-inline-prestack', 'single-crossline-prestack'):
            # a regular pre-stack line: one inline (crossline), every CDP with the same fold; segyio reads it as 1 x n x fold
            fold = 2 if nT % 2 == 0 else 3 if nT % 3 == 0 else 1
            hdrs = []
            for t in range(nT):
                h = {k: int(a[t]) for k, a in hm.items()}
                c_ = int(src['il'][0]) if src['il'][0] != 0 else 7
                if how == 'single-inline-prestack':
                    h.update({189: c_, 193: 100 + t // fold, 37: 100 * (1 + t % fold)})
                else:
                    h.update({193: c_, 189: 100 + t // fold, 37: 100 * (1 + t % fold)})
                hdrs.append(h)
            gen.make_segy_traces(path, list(data), hdrs, dt_us=dt, t0=t0, fmt=src['fmt'], ext=src.get('ext', 0))
        elif how == 'single-inline-gathers':
            # one inline, the crossline word holds a CDP number shared by the traces of a gather (irregular fold), offsets vary within it
            hdrs, cdp, t = [], 0, 0
            folds = [1, 3, 2, 4, 1, 2]
            while t < nT:
                for j in range(folds[cdp % len(folds)]):
                    if t < nT:
                        h = {k: int(a[t]) for k, a in hm.items()}
                        h.update({189: int(src['il'][0]) if src['il'][0] != 0 else 7, 193: 100 + cdp, 37: 50 + 25 * j})
                        hdrs.append(h)
                        t += 1
                cdp += 1
            gen.make_segy_traces(path, list(data), hdrs, dt_us=dt, t0=t0, fmt=src['fmt'], ext=src.get('ext', 0))
        else:
            cube3 = data[None, :, :] if how == 'single-inline' else data[:, None, :]
            il = np.array([src['il'][0]]) if how == 'single-inline' else src['il'][0] + abs(src['il'][1]) * np.arange(nT)
            xl = src['xl'][0] + abs(src['xl'][1]) * np.arange(nT) if how == 'single-inline' else np.array([src['xl'][0]])
            off = src.get('offset2d')
            if off:
                tt = np.arange(nT)
                hm = dict(hm)
                hm[37] = {'vary': 100 + 25 * tt, 'const': 1500 + 0 * tt, 'repeat': 100 + 50 * (tt % 3), 'desc': 5000 - 10 * tt}[off]
            gen.make_segy(path, cube3, il, xl, dt_us=dt, t0=t0, fmt=src['fmt'], headers=hm, ext=src.get('ext', 0))
        out.update(ntraces=nT, hdr_classes=cls)
    else:
        raise ValueError(geom)
    if src.get('text_special'):
        # punctuation on which segyio's EBCDIC table and Python's cp037 codec disagree ([ ] ! ^ |)
        with segyio.open(path, 'r+', strict=False, ignore_geometry=True) as f:
            f.text[0] = segyio.tools.create_text_header({1: 'Processed by ACME [v2]! a|b x^2', 2: 'second line'})
    tsc = src.get('trace_sample_count')
    if tsc:
        # the trace-header sample-count word is redundant with the binary header's (which is what readers use): it may be stale or vary
        with segyio.open(path, 'r+', strict=False, ignore_geometry=True) as f:
            for t in range(f.tracecount):
                h = f.header[t]
                h[115] = 1501 if tsc == 'stale' else (1000 + 7 * t) % 32000 + 1
    ih = src.get('interval_hdr')
    if ih:
        # the sample interval is recorded twice in a SEG-Y (binary header, every trace header); they may disagree or be absent in one place
        with segyio.open(path, 'r+', strict=False, ignore_geometry=True) as f:
            if ih == 'bin-zero':
                f.bin[segyio.BinField.Interval] = 0
            elif ih == 'bin-differs':
                f.bin[segyio.BinField.Interval] = 2 * dt if 2 * dt < 32768 else dt // 2
            elif ih == 'trace-zero':
                for t in range(f.tracecount):
                    h = f.header[t]
                    h[117] = 0
    # O-SRC
    traces = gen.source_traces(path)
    headers = gen.source_headers(path)
    with segyio.open(path, strict=False, ignore_geometry=True) as f:
        out['samples'] = np.asarray(f.samples, dtype=np.float64)
        out['fmt'] = int(f.bin[segyio.BinField.Format])
    if geom == 'irregular':
        # segyio's own geometry inference may accept an irregular file as a regular cube (known finding, decided by C08)
        with segyio.open(path, strict=False) as f:
            out['segyio_structured'] = not f.unstructured
    out['traces'] = traces
    out['headers'] = headers
    out['path'] = path
    out['file_header'] = open(path, 'rb').read(3600)
    if geom == '3d':
        nI, nX, nZ = shape
        if src.get('sorting', 2) == 2:
            out['data'] = traces.reshape(nI, nX, nZ)
        else:
            out['data'] = np.ascontiguousarray(traces.reshape(nX, nI, nZ).transpose(1, 0, 2))
    elif geom == 'irregular':
        nI, nX, nZ = shape
        g = np.zeros(shape, np.float32)
        for t, (i, x) in enumerate(out['positions']):
            g[i, x] = traces[t]
        out['data'] = g
    else:
        out['data'] = traces
    return out


def zgy_desc(rng, shape, **kw):
    """Descriptor of a generated ZGY source: integer annotation axes (any sign of the increments), float sample axis in ms
    (start and increment need not be whole numbers), corner coordinates for the CDP arrays."""
    x0, y0 = rng.choice([(0.0, 0.0), (1000.0, 2000.0), (431234.25, 6471234.5), (-500.5, 12.25)])
    dx, dy = rng.choice([(12.5, 25.0), (25.0, 12.5), (6.25, 6.25), (100.0, 50.0)])
    nI, nX = shape[0], shape[1]
    d = {'geom': 'zgy', 'shape': list(shape),
         'il': [rng.choice([1, 0, 10, -5, 1000, 2 ** 20]), rng.choice([1, 1, 2, -1, 7, -2])],
         'xl': [rng.choice([1, 0, 100, -30, 2000]), rng.choice([1, 1, 3, -1, -7, 2])],
         'z0': rng.choice([0.0, 0.0, 100.0, -12.0, 8.5, -100.25, 1000.0]), 'dz': rng.choice([4.0, 2.0, 1.0, 0.5, 0.25, 2.5, 3.0, 12.5, 0.125]),
         'corners': [[x0, y0], [x0 + dx * (nI - 1), y0], [x0, y0 + dy * (nX - 1)], [x0 + dx * (nI - 1), y0 + dy * (nX - 1)]],
         'cubeseed': rng.randrange(1 << 20), 'valkind': rng.choice(['smooth', 'smooth', 'noise', 'ramp', 'neg', 'const', 'zeros', 'tiny'])}   # openzgy's writer cannot histogram +-3e38
    d.update(kw)
    # pyzgy's own line accessors take a negative line *number* for an ordinal from the end, so a ZGY file with negative
    # annotation cannot be read by number even by pyzgy: line numbers are kept >= 0 (descending axes included)
    for ax, n in (('il', nI), ('xl', nX)):
        lo = min(d[ax][0], d[ax][0] + d[ax][1] * (n - 1))
        if lo < 0:
            d[ax] = [d[ax][0] - lo, d[ax][1]]
    return d


def write_zgy(path, data, il, xl, z0, dz, corners=None):
    """ZGY file (float32 samples) through pyzgy's own writer; il/xl = [start, step]."""
    from pyzgy.write import SeismicWriter
    with env.quiet():
        with SeismicWriter(path, tuple(int(s) for s in data.shape), zstart=float(z0), zinc=float(dz), annotstart=(int(il[0]), int(xl[0])),
                           annotinc=(int(il[1]), int(xl[1])), corners=[tuple(map(float, c)) for c in corners] if corners else None) as w:
            w.write_volume(np.ascontiguousarray(data, dtype=np.float32))
    return path


def build_zgy(src, scratch, data, out, name='src.zgy'):
    """O-SRC for ZGY: what pyzgy reads back from the generated file."""
    import pyzgy
    path = scratch.file(name)
    write_zgy(path, data, src['il'], src['xl'], src.get('z0', 0.0), src.get('dz', 4.0), src.get('corners'))
    with env.quiet():
        with pyzgy.open(path) as f:
            out.update(ilines=np.asarray(f.ilines).astype(np.int64), xlines=np.asarray(f.xlines).astype(np.int64),
                       samples=np.asarray(f.samples, dtype=np.float64), ntraces=int(f.tracecount), corners=[tuple(c) for c in f.corners])
        cube = np.ascontiguousarray(pyzgy.tools.cube(path), dtype=np.float32)
    out.update(path=path, data=cube, traces=cube.reshape(-1, cube.shape[-1]), fmt=5)
    return out


def convert_zgy(src_path, out_path, rate=4, bs=None, cli=False):
    if cli:
        from click.testing import CliRunner
        from seismic_zfp.cli import cli as cli_main
        args = ['zgy2sgz', src_path, out_path, '--bits-per-voxel', cli_rate(rate)]
        with env.quiet():
            res = CliRunner().invoke(cli_main, args)
        if res.exception is not None and not isinstance(res.exception, SystemExit):
            raise res.exception
        if res.exit_code != 0:
            raise RuntimeError('cli exit %s: %s' % (res.exit_code, res.output[-300:]))
        return out_path
    from seismic_zfp.conversion import ZgyConverter
    with env.quiet():
        with ZgyConverter(src_path) as c:
            c.run(out_path, bits_per_voxel=rate, blockshape=tuple(bs) if bs is not None else None)
    return out_path


def zgy_truth_arrays(src):
    """The four header arrays a ZGY-sourced SGZ file carries (file-specification / README: CDP X/Y in centi-units by
    bilinear placement between the corners, inline and crossline numbers), computed independently."""
    nI, nX = len(src['ilines']), len(src['xlines'])
    c = src['corners']
    ii, xx = np.meshgrid(np.arange(nI, dtype=np.float64), np.arange(nX, dtype=np.float64), indexing='ij')
    ex_i = (c[1][0] - c[0][0]) / (nI - 1)
    ny_i = (c[1][1] - c[0][1]) / (nI - 1)
    ex_x = (c[2][0] - c[0][0]) / (nX - 1)
    ny_x = (c[2][1] - c[0][1]) / (nX - 1)
    cx = np.round(100.0 * (c[0][0] + ii * ex_i + xx * ex_x)).astype(np.int64).reshape(-1)
    cy = np.round(100.0 * (c[0][1] + ii * ny_i + xx * ny_x)).astype(np.int64).reshape(-1)
    IL = np.repeat(np.asarray(src['ilines'], dtype=np.int64), nX)
    XL = np.tile(np.asarray(src['xlines'], dtype=np.int64), nI)
    return {181: cx, 185: cy, 189: IL, 193: XL}


def convert_segy(src_path, out_path, rate=4, bs=None, reduce_iops=False, detection='heuristic', window=None, mem_limit=None, prerun=None):
    """prerun=(rate, blockshape, detection): the same converter object first writes another file with that setting (a converter
    serving several run() calls is ordinary use; what it wrote before must not show in what it writes next)."""
    from seismic_zfp.conversion import SegyConverter
    kw = {}
    if window is not None:
        kw = dict(min_il=window[0], max_il=window[1], min_xl=window[2], max_xl=window[3])
    with env.quiet():
        with SegyConverter(src_path, **kw) as c:
            if prerun is not None:
                c.run(out_path + '.prerun', bits_per_voxel=prerun[0], blockshape=tuple(prerun[1]), reduce_iops=reduce_iops, header_detection=prerun[2])
                os.remove(out_path + '.prerun')
            if mem_limit is not None:
                c.mem_limit = mem_limit          # sized for the setting of the observed run (forces its queue capacity)
            c.run(out_path, bits_per_voxel=rate, blockshape=tuple(bs) if bs is not None else None, reduce_iops=reduce_iops,
                  header_detection=detection)
    return out_path


def convert_numpy(data, out_path, rate=4, bs=(4, 4, -1), ilines=None, xlines=None, samples=None, trace_headers=None, prerun=None):
    from seismic_zfp.conversion import NumpyConverter
    with env.quiet():
        with NumpyConverter(data, ilines=ilines, xlines=xlines, samples=samples, trace_headers=trace_headers or {}) as c:
            if prerun is not None:
                c.run(out_path + '.prerun', bits_per_voxel=prerun[0], blockshape=tuple(prerun[1]))
                os.remove(out_path + '.prerun')
            c.run(out_path, bits_per_voxel=rate, blockshape=tuple(bs))
    return out_path


def cli_rate(rate):
    return str(int(rate)) if rate >= 1 else str(-int(round(1 / rate)))


def convert_cli_inproc(src_path, out_path, rate=4, bs=None, reduce_iops=False, window=None):
    from click.testing import CliRunner
    from seismic_zfp.cli import cli
    args = ['sgy2sgz', src_path, out_path, '--bits-per-voxel', cli_rate(rate)]
    if bs is not None:
        args += ['--blockshape'] + [str(b) for b in bs]
    if reduce_iops:
        args += ['--reduce-iops', 'true']
    if window is not None:
        for n, v in zip(('--min-il', '--max-il', '--min-xl', '--max-xl'), window):
            args += [n, str(v)]
    res = CliRunner().invoke(cli, args)
    if res.exception is not None and not isinstance(res.exception, SystemExit):
        raise res.exception
    if res.exit_code != 0:
        raise RuntimeError('cli exit %s: %s' % (res.exit_code, res.output[-300:]))
    return out_path


def convert_cli_subprocess(src_path, out_path, rate=4, bs=None, reduce_iops=False):
    args = [env.PY, '-m', 'seismic_zfp.cli', 'sgy2sgz', src_path, out_path, '--bits-per-voxel', cli_rate(rate)]
    if bs is not None:
        args += ['--blockshape'] + [str(b) for b in bs]
    if reduce_iops:
        args += ['--reduce-iops', 'true']
    p = subprocess.run(args, capture_output=True, text=True, timeout=600)
    if p.returncode != 0:
        raise RuntimeError('cli subprocess rc %s: %s' % (p.returncode, p.stderr[-400:]))
    return out_path


def resolve_bs(rate, bs, ndim3=True):
    """The unique valid completion of a blockshape with one -1."""
    bs = list(bs)
    if -1 in bs:
        i = bs.index(-1)
        rest = 1
        for j, b in enumerate(bs):
            if j != i:
                rest *= b
        bs[i] = int(32768 // (rest * rate))
    return tuple(bs)


def grid_fields(src, keys=None):
    """True header values of every field laid out as the SGZ footer lays them out: over the il-major grid
    for 3D (zeros at the holes of an irregular survey), over traces for 2D."""
    keys = KEYS if keys is None else keys
    H = src['headers']
    out = {}
    geom = src['geom']
    for k in keys:
        a = np.asarray(H[k], dtype=np.int64)
        if geom == '3d':
            nI, nX, _ = src['desc']['shape']
            if src['desc'].get('sorting', 2) != 2:
                a = a.reshape(nX, nI).T.reshape(-1)
            out[k] = a
        elif geom == 'irregular':
            nI, nX, _ = src['desc']['shape']
            g = np.zeros(nI * nX, dtype=np.int64)
            for t, (i, x) in enumerate(src['positions']):
                g[i * nX + x] = a[t]
            out[k] = g
        else:
            out[k] = a
    return out


def must_be_exact(src, detection):
    """Which fields the property requires to read back exactly under a detection mode."""
    if detection in ('thorough', 'exhaustive'):
        return list(KEYS)
    if detection == 'strip':
        return []
    # heuristic: only when the whole header set is inside the stated precondition
    return list(KEYS) if gen.heuristic_precondition(src['headers']) else None


def missing_line_holes(rng, nI, nX, axis=0):
    """pick_holes plus one whole interior inline (axis 0) or crossline (axis 1) that was never acquired (two neighbouring lines
    remain somewhere, so the line increment is still the smallest spacing present).  None when the grid is too small."""
    n = (nI, nX)[axis]
    if n < 4:
        return None
    for _ in range(60):
        k = rng.randrange(1, n - 1)
        line = {k * nX + x for x in range(nX)} if axis == 0 else {i * nX + k for i in range(nI)}
        holes = set(pick_holes(rng, nI, nX)) | line
        present = np.ones((nI, nX), bool)
        present.reshape(-1)[list(holes)] = False
        rows, cols = present.any(axis=1), present.any(axis=0)
        if (rows.sum(), cols.sum()) != ((nI - 1, nX) if axis == 0 else (nI, nX - 1)):
            continue
        if not rows[0] or not rows[-1] or not cols[0] or not cols[-1] or present.sum() % max(1, present[0].sum()) == 0:
            continue
        return sorted(holes)
    return None


def pick_holes(rng, nI, nX, max_holes=None, plain=True):
    """Proper subset of an nI x nX grid in which every inline and crossline keeps >= 1 trace.
    plain=True additionally avoids the inputs of two known findings (DESIGN.md / known_findings.json):
    a trace count that is a multiple of the first inline's length, and (caller's job) a line numbered 0."""
    tot = nI * nX
    max_holes = max_holes if max_holes is not None else max(1, tot // 3)
    for _ in range(200):
        nh = rng.randint(1, max(1, min(max_holes, tot - max(nI, nX) - 1)))
        holes = set(rng.sample(range(tot), nh))
        present = np.ones((nI, nX), bool)
        present.reshape(-1)[list(holes)] = False
        if not (present.any(axis=1).all() and present.any(axis=0).all()):
            continue
        if plain:
            first_len = int(present[0].sum())
            if (tot - nh) % first_len == 0:
                continue
        return sorted(holes)
    # fall back: single hole in the last row such that the counts do not divide
    return [tot - 1] if (tot - 1) % nX != 0 else [tot - 2]

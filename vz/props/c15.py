"""C15 history independence: every operation of a random history over a pool of readers, one emulator
and one xarray dataset on the same file must return what a freshly opened reader returns."""
import os
import random

import numpy as np

from .. import env, files, oracles, reads

ID, TITLE, LEVEL = 'C15', 'history independence', 'exploration'
RULE = ('case = one history of 40-200 operations on one file over a pool {1-3 SgzReader opened by path with preload in '
        '{F,T} and chunk_cache_size in {1,2,default}; one segyio-style emulator (7 accessors on one handle); one xarray '
        'dataset; one converter object (a reader subclass) that also exports / re-blocks the file between its reads}, interleaved with open/close of other readers of the same file; operations biased to repeats, '
        'alternation between two chunks and pairs differing in one argument; EVERY operation is compared (bytes, shape, '
        'exception type) with the same call on a freshly opened object (O-FRESH). distinct = distinct operation '
        'sequences; non-trivial = history observed at least one cache hit and one eviction or >= 2 objects used')
ASSUMPTIONS = ['O-FRESH (a fresh reader per call) is itself validated against the O-SPEC decode by C02']


def cases(tier, seed):
    rng = random.Random('C15/%s' % seed)
    out = []
    fx = [f for f in files.fixtures() if 'padding/' not in f] + ['padding/padding_5x7.sgz', 'padding/padding_8x8.sgz']
    nh = 6 if tier == 'quick' else 16
    for rel in fx:
        for h in range(nh):
            out.append({'id': 'fix:%s:%d' % (rel, h), 'file': {'kind': 'fixture', 'rel': rel},
                        'nops': rng.choice([40, 80, 120]) if tier == 'quick' else rng.choice([60, 120, 200]), 'hseed': rng.randrange(1 << 30), 'cost': 3})
    gen = []
    for fam, lays in files.LAYOUTS_3D.items():
        for rate, bs in rng.sample(lays, 2 if tier == 'quick' else len(lays)):
            gen.append((fam, rate, bs))
    for fam, rate, bs in gen:
        shape = files.small_shape_for(bs, rng, blocks=(2, 3), cap=400_000 if tier == 'quick' else 1_500_000)
        d = files.wspec_desc(rng, shape, rate, bs, narr=rng.choice([2, 3]))
        fidx = len([o for o in out if o['id'].startswith('w3:')]) // nh
        if fidx % 3 == 0:
            # inline and crossline numbers drawn from overlapping ranges with different origins: the same number names a
            # different ordinal on the two axes
            k0 = rng.choice([0, 1, 10])
            d.update(il=[k0, 1], xl=[k0 + rng.choice([1, 2, 3]), 1])
        elif fidx % 3 == 1:
            # descending axes (line numbers stay >= 0)
            st = rng.choice([1, 2])
            d.update(il=[3 + st * (shape[0] - 1), -st], xl=rng.choice([[5, 1], [7 + 3 * (shape[1] - 1), -3]]))
        for h in range(nh):
            out.append({'id': 'w3:%s:%s:%s:%d' % (fam, rate, 'x'.join(map(str, bs)), h), 'file': d,
                        'nops': rng.choice([40, 80]), 'hseed': rng.randrange(1 << 30), 'cost': 4})
    # a file without stored header arrays (as written with header_detection='strip') whose sample axis does not start at 0
    d = files.wspec_desc(rng, (6, 7, 20), 4, (4, 4, 512), narr=0, t0=100, version=[0, 2, 9], il=[1, 1], xl=[5, 2])
    d.pop('f64', None)
    for h in range(nh):
        out.append({'id': 'w3:noarrays:%d' % h, 'file': d, 'nops': 40, 'hseed': rng.randrange(1 << 30), 'cost': 2})
    for rate, bs in rng.sample(files.LAYOUTS_2D, 3 if tier == 'quick' else len(files.LAYOUTS_2D)):
        nT = rng.choice([bs[1] + 1, 2 * bs[1] + 3])
        nZ = rng.choice([50, 301]) if bs[2] > 301 else 2 * bs[2] + 1
        d = files.wspec_desc(rng, (max(2, nT), nZ), rate, bs, version=[0, 2, 9], narr=2)
        for h in range(nh):
            out.append({'id': 'w2:%s:%s:%d' % (rate, 'x'.join(map(str, bs)), h), 'file': d, 'nops': 60,
                        'hseed': rng.randrange(1 << 30), 'cost': 2})
    for rate, bs in [(4, (4, 4, 512)), (8, (8, 8, 64))]:
        nI, nX = rng.randint(5, 9), rng.randint(5, 9)
        holes = sorted(rng.sample(range(1, nI * nX), rng.randint(1, 8)))
        d = files.wspec_desc(rng, (nI, nX, rng.randint(5, 40)), rate, bs, version=[0, 2, 9], holes=holes,
                             il=[rng.choice([1, 5]), 1], narr=3)
        for h in range(nh):
            out.append({'id': 'wi:%s:%s:%d' % (rate, 'x'.join(map(str, bs)), h), 'file': d, 'nops': 80,
                        'hseed': rng.randrange(1 << 30), 'cost': 2})
    return out


def header_ops(sp, rng, n):
    ops = []
    for _ in range(n):
        k = rng.choice(['hdr', 'hdr', 'hdrall', 'tf', 'tf1d', 'hash', 'bin'])
        if k == 'hdr':
            ops.append(('gen_trace_header', (rng.randrange(sp.ntr),)))
        elif k == 'hdrall':
            ops.append(('gen_trace_header', (rng.randrange(sp.ntr),), {'load_all_headers': True}))
        elif k == 'tf' and sp.stored:
            ops.append(('get_tracefield_values', (rng.choice(sp.stored),)))
        elif k == 'tf1d' and sp.stored:
            ops.append(('get_tracefield_1d', (rng.choice(sp.stored),)))
        elif k == 'hash':
            ops.append(('get_source_data_hash', ()))
        elif k == 'bin':
            ops.append(rng.choice([('get_file_binary_header', ()), ('get_file_text_header', ())]))
    return ops


def make_history(sp, rng, nops):
    """[(object-name, op)] with the biases of the quantifier."""
    if sp.is2d:
        base = reads.ops_2d(sp.shape[0], sp.shape[1], sp.bs, rng, 12)
    else:
        base = reads.ops_3d(sp.shape, sp.bs, rng, 24, tracecount=sp.ntr)
    base += header_ops(sp, rng, 8)
    pairs = []
    if not sp.is2d:
        # by line number / coordinate; numbers present on both axes are asked of both axes one after the other
        il, xl, zs = [int(v) for v in sp.ilines()], [int(v) for v in sp.xlines()], [float(v) for v in sp.samples()]
        both = sorted(set(il) & set(xl))
        for _ in range(6):
            n = rng.choice(both) if both and rng.random() < 0.7 else None
            a = ('read_inline_number', (n if n is not None else rng.choice(il),))
            b = ('read_crossline_number', (n if n is not None else rng.choice(xl),))
            base += [a, b]
            pairs.append((a, b))
        # equal-sized neighbouring slabs / tiles (a volume read piecewise), asked of one object one after the other
        nI_, nX_, nZ_ = sp.shape
        for ax, n_ in ((0, nI_), (1, nX_), (2, nZ_)):
            w = 4 * rng.choice([1, 2])
            if n_ >= 2 * w:
                lo = rng.randrange(0, n_ - 2 * w + 1) // 4 * 4
                box = [[0, nI_], [0, nX_], [0, nZ_]]
                a_, b_ = [list(x) for x in box], [list(x) for x in box]
                a_[ax], b_[ax] = [lo, lo + w], [lo + w, lo + 2 * w]
                pa = ('read_subvolume', tuple(v for r_ in a_ for v in r_))
                pb = ('read_subvolume', tuple(v for r_ in b_ for v in r_))
                base += [pa, pb]
                pairs.append((pa, pb))
        for _ in range(3):
            base.append(('read_zslice_coord', (rng.choice(zs),)))
            lo = rng.randrange(len(zs))
            base.append(('get_trace_by_coord', (rng.randrange(sp.ntr), zs[lo], zs[rng.randrange(lo, len(zs))] + (zs[1] - zs[0]))))
    # 'C': a converter object (a reader subclass) that also exports the file to SEG-Y between reads
    objs = ['R0', 'R1', 'R2', 'E', 'E.acc'] + ([] if sp.is2d else ['X']) + (['C'] if sp.ntr <= 4000 else [])
    hist = []
    # directed prefixes on one reader: every stored header array loaded one way, then headers regenerated the other way (and back)
    mode = rng.randrange(4)
    o = rng.choice(['R0', 'R1', 'E'])
    tf = [('get_tracefield_values', (k,)) for k in sp.stored]
    hd = [('gen_trace_header', (t,)) for t in sorted({0, sp.ntr - 1, sp.ntr // 2, rng.randrange(sp.ntr), rng.randrange(sp.ntr)})]
    if mode == 1:
        hist += [(o, x) for x in tf + hd]
    elif mode == 2:
        hist += [(o, x) for x in hd[:2] + tf + hd]
    elif mode == 3:
        hist += [(o, ('get_tracefield_1d', (k,))) for k in sp.stored] + [(o, x) for x in hd] + [(o, ('gen_trace_header', (0,), {'load_all_headers': True}))] + [(o, x) for x in tf]
    if 'C' in objs and not sp.stored:
        # directed prefix on the converter: a file WITHOUT stored header arrays (every word comes from the header-word table) is exported, then its
        # trace headers are regenerated through the same object
        hist += [('C', ('export', ())), ('C', ('gen_trace_header', (0,))), ('C', ('gen_trace_header', (sp.ntr - 1,))), ('C', ('get_tracefield_1d', (109,)))]
    if not sp.is2d and sp.ntr != sp.grid_traces and 189 in sp.stored:
        # directed prefix on an irregular file: the inline array loaded with padding first, then a trace (the first request for the hole mask), then headers
        o_ = rng.choice(['R0', 'R1', 'E'])
        t_ = rng.randrange(sp.ntr)
        hist += [(o_, ('get_tracefield_1d', (189,))), (o_, ('get_trace', (t_,))), (o_, ('gen_trace_header', (t_,))), (o_, ('gen_trace_header', (sp.ntr - 1,)))]
    if not sp.is2d:
        # directed prefix on the emulator: a slice / iteration through a line accessor, then single lines through the same accessor
        for name, ax in (('iline', [int(v) for v in sp.ilines()]), ('xline', [int(v) for v in sp.xlines()])):
            if len(ax) >= 2 and rng.random() < 0.5:
                hist.append(('E.acc', ('line_iter', (name,))))
                hist += [('E.acc', (name, (ax[0],))), ('E.acc', (name, (ax[-1],))), ('E.acc', (name, (ax[len(ax) // 2],)))]
    if sp.stored and rng.random() < 0.6:
        # directed prefix on the emulator: whole-array header reads (attributes) and per-trace headers (header[]) on the same object, both orders
        k_ = rng.choice(sp.stored)
        tt = sorted({0, sp.ntr - 1, rng.randrange(sp.ntr)})
        seq = [('E.acc', ('attributes', (k_,)))] + [('E.acc', ('header', (t_,))) for t_ in tt] + [('E.acc', ('attributes', (k_,)))]
        hist += seq if rng.random() < 0.5 else seq[1:] + seq[:1] + seq[1:2]
    while len(hist) < nops:
        mode = rng.random()
        if pairs and mode > 0.93:
            o = rng.choice(objs[:4])
            a, b = rng.choice(pairs)
            hist += [(o, a), (o, b)] if rng.random() < 0.5 else [(o, b), (o, a)]
        elif mode < 0.15:
            hist.append(('ctl', rng.choice(['open_other', 'close_other', 'reopen'])))
        elif mode < 0.45 and hist:
            # repeat or alternate recent ops, possibly on another object
            prev = [h for h in hist[-6:] if h[0] != 'ctl']
            if prev:
                o, op = rng.choice(prev)
                hist.append((rng.choice([o, o, rng.choice(objs[:4])]) if o in objs[:4] else o, op))
        elif mode < 0.6 and hist:
            # same op with exactly one argument changed
            prev = [h for h in hist[-6:] if h[0] != 'ctl' and h[0] in objs[:4] and h[1][1]]
            if prev:
                o, op = rng.choice(prev)
                cand = [b for b in base if b[0] == op[0] and b != op]
                if cand:
                    hist.append((o, rng.choice(cand)))
        else:
            o = rng.choice(objs)
            if o == 'E.acc':
                hist.append((o, emu_op(sp, rng)))
            elif o == 'C':
                r_ = rng.random()
                wr = ['export'] + (['reblock'] if sp.rate == 2 and tuple(sp.bs) == (4, 4, 1024) else [])
                hist.append((o, (rng.choice(wr), ()) if r_ < 0.2 else rng.choice([('get_file_binary_header', ()), ('get_file_text_header', ())]) if r_ < 0.4 else rng.choice(base)))
            elif o == 'X':
                (a, b), (c, d), (e, f) = (reads.rand_range(sp.shape[0], sp.bs[0], rng), reads.rand_range(sp.shape[1], sp.bs[1], rng),
                                          reads.rand_range(sp.shape[2], sp.bs[2], rng))
                hist.append((o, ('xr', (a, b, c, d, e, f, rng.choice([1, 1, 2])))))
            else:
                hist.append((o, rng.choice(base)))
    return hist


def emu_op(sp, rng):
    if sp.is2d:
        return (rng.choice(['trace', 'header']), (rng.randrange(-sp.ntr, sp.ntr),))
    k = rng.choice(['iline', 'xline', 'depth_slice', 'trace', 'header', 'attributes', 'trace_slice', 'line_slice', 'line_slice', 'line_iter'])
    if k in ('line_slice', 'line_iter'):
        # slices / iteration through the line accessors (forward in axis order, bounds = existing non-negative line numbers)
        name = rng.choice(['iline', 'xline'])
        ax = [int(v) for v in (sp.ilines() if name == 'iline' else sp.xlines())]
        if k == 'line_iter' or len(ax) < 2 or min(ax) < 0:
            return ('line_iter', (name,))
        i = rng.randrange(len(ax) - 1)
        j = rng.randrange(i + 1, min(len(ax), i + 4))
        return ('line_slice', (name, ax[i], ax[j], ax[1] - ax[0]))
    if k == 'iline':
        return (k, (int(sp.ilines()[rng.randrange(sp.nil)]),))
    if k == 'xline':
        return (k, (int(sp.xlines()[rng.randrange(sp.nxl)]),))
    if k == 'depth_slice':
        return (k, (rng.randrange(-sp.ns, sp.ns),))
    if k in ('trace', 'header'):
        return (k, (rng.randrange(-sp.ntr, sp.ntr),))
    if k == 'attributes':
        return (k, (rng.choice(sp.stored) if sp.stored else 189,))
    a, b = reads.rand_range(sp.ntr, 4, rng)
    return ('trace_slice', (a, b, rng.choice([1, 2])))


def apply(obj_kind, obj, op):
    """Run op on the object; returns normalised outcome."""
    try:
        if obj_kind == 'E.acc':
            name, a = op
            if name == 'attributes':
                return ('ok', reads.norm(obj.attributes(a[0])[:]))
            if name == 'line_slice':
                return ('ok', reads.norm([np.asarray(v) for v in getattr(obj, a[0])[a[1]:a[2]:a[3]]]))
            if name == 'line_iter':
                return ('ok', reads.norm([np.asarray(v) for v in getattr(obj, a[0])][:3]))
            if name == 'trace_slice':
                return ('ok', reads.norm([np.asarray(t) for t in obj.trace[a[0]:a[1]:a[2]]]))
            return ('ok', reads.norm(getattr(obj, name)[a[0]]))
        if op[0] in ('export', 'reblock'):
            tmp = SCRATCH[0].file('written-%d.out' % len(SCRATCH))
            SCRATCH.append(tmp)
            with env.quiet():
                (obj.convert_to_segy if op[0] == 'export' else obj.convert_to_adv_sgz)(tmp)
            os.remove(tmp)
            return ('ok', 'written')
        if obj_kind == 'X':
            a = op[1]
            return ('ok', reads.norm(obj.data[a[0]:a[1], a[2]:a[3], a[4]:a[5]:a[6]].to_numpy()))
        return reads.run_op(obj, op, keep=RETAINED)
    except Exception as e:  # noqa
        return ('exc', type(e).__name__)


# retention monitor: arrays returned by earlier reads of the history are kept (the objects themselves, as a caller would) and must still
# hold what they held when they were returned, whatever is read afterwards
RETAINED = []
SCRATCH = []


def run_case(case, ctx):
    import seismic_zfp
    import xarray as xr
    from seismic_zfp.read import SgzReader
    path, truth = files.build(case['file'], ctx['scratch'])
    sp = oracles.Spec(path)
    rng = random.Random(case['hseed'])
    hist = make_history(sp, rng, case['nops'])
    cfg = {n: {'preload': rng.choice([False, True]), 'chunk_cache_size': rng.choice([1, 2, None])} for n in ('R0', 'R1', 'R2')}
    pool = {}
    others = []

    def get(name):
        if name in pool:
            return pool[name]
        if name in cfg:
            pool[name] = SgzReader(path, **cfg[name])
        elif name in ('E', 'E.acc'):
            pool['E'] = pool['E.acc'] = seismic_zfp.open(path, chunk_cache_size=rng.choice([1, 2, None]))
        elif name == 'X':
            pool['X'] = xr.open_dataset(path, engine='sgz_engine')
        elif name == 'C':
            from seismic_zfp.conversion import SgzConverter
            pool['C'] = SgzConverter(path)
        return pool[name]

    fresh_memo = {}

    def fresh(kind, op):
        key = (kind if kind in ('E.acc', 'X') else 'R', repr(op))
        if key not in fresh_memo:
            if kind == 'E.acc':
                with seismic_zfp.open(path) as f:
                    fresh_memo[key] = apply(kind, f, op)
            elif kind == 'X':
                ds = xr.open_dataset(path, engine='sgz_engine')
                try:
                    fresh_memo[key] = apply(kind, ds, op)
                finally:
                    ds.close()
            elif op[0] in ('export', 'reblock'):
                from seismic_zfp.conversion import SgzConverter
                with SgzConverter(path) as c:
                    fresh_memo[key] = apply('R', c, op)
            else:
                with SgzReader(path) as r:
                    fresh_memo[key] = apply('R', r, op)
        return fresh_memo[key]

    bad, n, used = [], 0, set()
    kept = 0
    del RETAINED[:]
    written = {}
    SCRATCH[:] = [ctx['scratch']]
    trail = []
    for step, (o, op) in enumerate(hist):
        if o == 'ctl':
            if op == 'open_other':
                others.append(SgzReader(path, preload=rng.choice([False, True])))
                if rng.random() < 0.5:
                    apply('R', others[-1], ('read_volume' if not sp.is2d else 'get_trace', () if not sp.is2d else (0,)))
            elif op == 'close_other' and others:
                others.pop(rng.randrange(len(others))).close()
            elif op == 'reopen':
                name = rng.choice(['R0', 'R1', 'R2'])
                if name in pool:
                    pool.pop(name).close()
            trail.append(op)
            continue
        obj = get(o)
        got = apply(o, obj, op)
        del RETAINED[:-5]
        for op_r, raw_r, n_r in RETAINED[:-1]:
            kept += 1
            if reads.norm(raw_r) != n_r:
                bad.append({'sig': 'history:%s:earlier-result-changed-by-a-later-read' % op_r[0],
                            'detail': 'the array returned by %s%s changed after step %d %s %s%s; preceding: %s' % (op_r[0], op_r[1:], step, o, op[0], op[1:], trail[-6:])})
                del RETAINED[:]
                break
        exp = fresh(o, op)
        if op[0] in ('export', 'reblock') and got[0] == 'ok':
            written[op[0]] = written.get(op[0], 0) + 1
        elif o == 'C' and written:
            written['reads-after'] = written.get('reads-after', 0) + 1
        n += 1
        used.add(o)
        trail.append('%s.%s%s' % (o, op[0], op[1]))
        if got != exp:
            what = 'exception-vs-result' if got[0] != exp[0] else ('exception-type' if got[0] == 'exc' else 'value')
            bad.append({'sig': 'history:%s:%s:%s-differs-from-fresh' % ('emulator' if o.startswith('E') else 'xarray' if o == 'X' else 'reader', op[0], what),
                        'detail': 'step %d %s %s%s on %s (cfg %s): got %s, fresh gives %s; preceding: %s'
                                  % (step, o, op[0], op[1:], o, cfg.get(o), got[:2] if got[0] == 'exc' else (got[0], got[1][:2]),
                                     exp[:2] if exp[0] == 'exc' else (exp[0], exp[1][:2]), trail[-6:-1])})
            if len(bad) > 5:
                break
    hits = misses = 0
    try:
        for r in [v for k, v in pool.items() if k in cfg]:
            ci = r._read_containing_chunk_cached.cache_info()
            hits += ci.hits
            misses += ci.misses
        ld = next((v.loader for k, v in pool.items() if k in cfg), None)
        if ld is not None:
            for m in ('read_and_decompress_il_set', 'read_and_decompress_xl_set', 'read_and_decompress_zslice_set',
                      'read_and_decompress_chunk_range', 'read_unshuffle_and_decompress_chunk_range',
                      'read_and_decompress_trace_range', 'read_unshuffle_and_decompress_chunk_range_2d'):
                if hasattr(ld, m):
                    ci = getattr(ld, m).cache_info()
                    hits += ci.hits
                    misses += ci.misses
    except Exception:  # noqa
        pass
    for k, v in list(pool.items()):
        try:
            if k == 'E.acc':
                continue
            if k == 'E':
                v.__exit__(None, None, None)
            else:
                v.close()
        except Exception:  # noqa
            pass
    for r in others:
        r.close()
    del RETAINED[:]
    return {'violations': bad, 'counters': {'ops_compared': n, 'retained_results_rechecked': kept, 'cache_hits': hits, 'cache_misses': misses,
                                            'histories': 1, 'fresh_oracle_calls': len(fresh_memo), 'converter_exports': written.get('export', 0), 'converter_reblocks': written.get('reblock', 0),
                                            'converter_reads_after_writing': written.get('reads-after', 0)},
            'strata': sorted('obj:' + u for u in used) + ['cfg:preload' if any(c['preload'] for c in cfg.values()) else 'cfg:nopreload'] +
            ['cfg:ccs%s' % c['chunk_cache_size'] for c in cfg.values()] + ['kind:' + ('2d' if sp.is2d else 'irregular' if sp.ntr != sp.grid_traces else '3d')],
            'key': str(hash(tuple(map(str, hist)))), 'nontrivial': n >= 20 and len(used) >= 2}


def sample_view(case, res):
    return {'id': case['id'], 'file': case['file'], 'nops': case['nops'], 'hseed': case['hseed'],
            'ops_compared': (res or {}).get('counters', {}).get('ops_compared')}


def finalize(tier, cases, results, counters, strata):
    reasons = []
    for s in ['obj:R0', 'obj:R1', 'obj:E', 'obj:E.acc', 'obj:X', 'obj:C', 'cfg:preload', 'cfg:ccs1', 'cfg:ccs2', 'cfg:ccsNone',
              'kind:3d', 'kind:2d', 'kind:irregular']:
        if s not in strata:
            reasons.append('required stratum not hit: ' + s)
    if counters.get('cache_hits', 0) == 0:
        reasons.append('no cache hit observed: warm paths not exercised')
    if counters.get('retained_results_rechecked', 0) == 0:
        reasons.append('retention monitor re-checked no earlier result')
    if counters.get('converter_exports', 0) == 0 or counters.get('converter_reads_after_writing', 0) == 0:
        reasons.append('no read through a converter object after it had exported the file')
    return {}, reasons

"""C12 re-blocking to the 64x64x4 layout changes layout only."""
import os
import random

import numpy as np

from .. import conform, conv, env, files, monitors, oracles, reads
from ..oracles import KEYS
from .c03 import spec_fields

ID, TITLE, LEVEL = 'C12', 're-blocking', 'exploration'
RULE = ('case = one default-layout 2-bit source (harness spec-writer: regular and irregular, 0-5 stored arrays + duplicate rows, '
        'pre/post-0.2.1 footers, trace counts with 4n mod 512 in {0, other}; repository-written regular / irregular), shapes with '
        'each line dimension below / at / above one and several 64-blocks and z around 4 and 1024; the re-blocked file must pass '
        'conformance, decode (O-SPEC) and read (reader paths) bitwise equal to the source decode on every real voxel, and keep '
        'axes, trace count, file header, every trace header, tracefield arrays and hash; the re-blocker\'s reads (counting file) must '
        'stay inside data section + footer; unsupported inputs (other rate / layout) must be refused. distinct = (shape classes, '
        'arrays, kind); non-trivial = a re-blocked file was compared or a refusal judged')
ASSUMPTIONS = []
DIMS = [3, 5, 8, 63, 64, 65, 70, 128, 130]


def cases(tier, seed):
    rng = random.Random('C12/%s' % seed)
    out = []
    n = 45 if tier == 'quick' else 270
    for i in range(n):
        # dimensions, z classes and footer conventions are cycled deterministically
        nI, nX = DIMS[i % len(DIMS)], DIMS[(4 * i + 3) % len(DIMS)]
        while nI * nX > (6000 if tier == 'quick' else 17000):
            nX = rng.choice(DIMS[:6])
        nZ = [3, 4, 5, 9, 40][(i // 5) % 5] if i % 5 else [1030, 1024, 1025][(i // 5) % 3]
        kind = ['wspec', 'wspec', 'wspec-irregular', 'segy', 'segy-irregular'][i % 5]
        d = {'id': 'rb:%d:%s:%dx%dx%d' % (i, kind, nI, nX, nZ), 'kind': kind, 'shape': [nI, nX, nZ], 'cost': 1 + nI * nX / 1500, 'prehistory': i % 2 == 1,
             'export_first': i % 3 == 2 and kind in ('wspec', 'segy')}
        if kind.startswith('wspec'):
            f = files.wspec_desc(rng, (nI, nX, nZ), 2, (4, 4, 1024), narr=rng.choice([0, 1, 2, 3, 5]) if kind == 'wspec' else rng.choice([2, 3]),
                                 version=[[0, 2, 9], [0, 2, 1], [0, 1, 9], [0, 2, 9]][(i // 5 + i % 5) % 4] if kind == 'wspec' else [0, 2, 9],
                                 il=[rng.choice([1, 10, -7]), rng.choice([1, 2])], xl=[rng.choice([1, 100]), rng.choice([1, 3])])
            if kind == 'wspec-irregular':
                f['holes'] = conv.pick_holes(rng, max(nI, 3), max(nX, 3)) if nI >= 3 and nX >= 3 else [1]
                f['il'] = [rng.choice([1, 5]), 1]
            d['file'] = f
        else:
            nI, nX = max(nI, 3), max(nX, 3)
            kw = {}
            if kind == 'segy-irregular':
                kw = {'holes': conv.pick_holes(rng, nI, nX), 'il': [rng.choice([1, 5]), rng.choice([1, 2])], 'xl': [rng.choice([1, 20]), rng.choice([1, 3])]}
            d['src'] = conv.src_desc(rng, 'irregular' if kind == 'segy-irregular' else '3d', (nI, nX, nZ),
                                     hdr={'seed': rng.randrange(1 << 20), 'nfields': rng.randint(1, 4), 'inside': True}, valkind='smooth', **kw)
            d['detection'] = rng.choice(['heuristic', 'thorough'])
        out.append(d)
    for rate, bs in [(4, (4, 4, 512)), (2, (64, 64, 4)), (2, (8, 8, 256)), (1, (4, 4, 2048)), (2, (4, 16, 256)), (2, (16, 4, 256)), (2, (4, 8, 512)), (2, (16, 16, 64)),
                     (8, (4, 4, 256)), (0.5, (4, 4, 4096))]:
        out.append({'id': 'refuse:%s:%s' % (rate, 'x'.join(map(str, bs))), 'kind': 'refuse', 'cost': 1,
                    'file': files.wspec_desc(rng, (5, 6, 7), rate, bs, version=[0, 2, 9])})
    # 2D files, also those that share the bit rate and the sample-block length of the supported layout
    for rate, bs in [(2, (1, 16, 1024)), (2, (1, 4, 4096)), (2, (1, 64, 256)), (4, (1, 16, 512))]:
        out.append({'id': 'refuse:2d:%s:%s' % (rate, 'x'.join(map(str, bs))), 'kind': 'refuse', 'cost': 1,
                    'file': files.wspec_desc(rng, (9, 20), rate, bs, version=[0, 2, 9], narr=2)})
    return out


def run_case(case, ctx):
    import seismic_zfp.read as R
    from seismic_zfp.conversion import SgzConverter
    from seismic_zfp.read import SgzReader
    rng = ctx['rng']
    sc = ctx['scratch']
    out = sc.file('adv.sgz')
    if case['kind'] == 'refuse':
        path, _ = files.build(case['file'], sc)
        try:
            with env.quiet():
                with SgzConverter(path) as c:
                    c.convert_to_adv_sgz(out)
            return {'violations': [{'sig': 'reblock:unsupported-input-not-refused', 'detail': 'rate %s bs %s' % (case['file']['rate'], case['file']['bs'])}],
                    'strata': ['refusal'], 'counters': {'refusals': 1}}
        except Exception:  # noqa
            return {'violations': [], 'strata': ['refusal'], 'counters': {'refusals': 1}}
    if case['kind'].startswith('wspec'):
        path, _ = files.build(case['file'], sc)
    else:
        src = conv.build_source(case['src'], sc)
        if src.get('segyio_structured'):
            return {'nontrivial': False, 'counters': {'skipped_segyio_infers_regular_cube': 1}}
        path = sc.file('in.sgz')
        conv.convert_segy(src['path'], path, 2, (4, 4, -1), detection=case['detection'])
    sp = oracles.Spec(path)
    V = sp.decode()
    F = spec_fields(sp)
    # re-block under the storage monitor
    shadow = monitors.ShadowOpen()
    R.open = shadow
    try:
        with env.quiet():
            with SgzConverter(path) as c:
                # the converter is a reader: half of the cases use it before converting (the output must not depend on that)
                if case.get('prehistory') and sp.stored:
                    # per-word array reads, words that alias another word's stored array first (they do not cover every stored array)
                    offs = {}
                    for k_, v_ in c.segy_traceheader_template.items():
                        if type(v_).__name__ == 'FileOffset':
                            offs.setdefault(int(v_), []).append(int(k_))
                    aliases = [ks[j] for ks in offs.values() for j in range(1, len(ks))]
                    words = (aliases + rng.sample(sp.stored, min(len(sp.stored), 2))[::-1])[:max(2, len(sp.stored))]
                    for k in words:
                        c.get_tracefield_values(k)
                    c.get_trace(0)
                    if sp.ntr == sp.grid_traces:
                        c.gen_trace_header(sp.ntr - 1)
                    prehist = True
                    # ... and has re-blocked the file once already (the second output is the one observed)
                    c.convert_to_adv_sgz(out + '.first')
                    os.remove(out + '.first')
                if case.get('export_first'):
                    # ... or has exported the file to SEG-Y (harness-written files carry a format code the exporter replaces in its output)
                    c.convert_to_segy(out + '.sgy')
                    os.remove(out + '.sgy')
                c.convert_to_adv_sgz(out)
    finally:
        del R.open
    bad = []
    end = sp.expected_length()
    for off, n, got in shadow.log:
        if off < 0 or off + max(n, 0) > end or got != n:
            bad.append({'sig': 'reblock:read-outside-source-file-parts', 'detail': 'read (%d,%d) returned %s; source is %d bytes (data %d..%d)'
                        % (off, n, got, end, sp.data0, sp.footer0)})
            break
    irregular = sp.ntr != sp.grid_traces
    t = {'shape': sp.shape, 'rate': 2, 'bs': (64, 64, 4), 'ilines': sp.ilines(), 'xlines': sp.xlines(), 'samples': sp.samples(), 'ntraces': sp.ntr,
         'data_image': V, 'fields': F, 'file_header': sp.file_header, 'hash': sp.hash, 'version': sp.version}
    b, sp2 = conform.check(out, t, tag='reblock:')
    bad += b
    ncmp = 0
    if not b:
        nI, nX, nZ = sp.shape
        gm = np.flatnonzero(sp.mask()) if irregular else None
        # the re-blocked file is read through a handle whose seeks are slow when issued from pool threads (nothing changes for
        # a reader that serialises its positioned reads)
        mf = monitors.MonFile(out)
        mf.seek_delay = 0.0005
        with monitors.YieldInjector(seed=len(case['id'])) as yi_, SgzReader(mf) as r, SgzReader(path) as s:
            if r.tracecount != s.tracecount or r.structured != s.structured:
                bad.append({'sig': 'reblock:tracecount-or-structured-differs', 'detail': '%s/%s vs %s/%s' % (r.tracecount, r.structured, s.tracecount, s.structured)})
            if r.get_source_data_hash() != s.get_source_data_hash():
                bad.append({'sig': 'reblock:hash-differs', 'detail': ''})
            ops = reads.ops_3d((nI, nX, nZ), (64, 64, 4), rng, 16, tracecount=sp.ntr)
            if nI > 64 or nX > 64:
                # several 64x64 blocks side by side: the slab readers fetch them as separate tasks on the one file handle
                ops += [('read_zslice', (z,)) for z in sorted({0, nZ - 1} | {rng.randrange(nZ) for _ in range(8)})]
            b2, k = reads.check_ops(r, ops, lambda op: reads.expected_3d(V, op, gm), tag='reblock:')
            bad += b2
            ncmp += k
            for tr in {0, sp.ntr - 1, rng.randrange(sp.ntr)}:
                ha = {int(k2): int(v) for k2, v in r.gen_trace_header(tr).items()}
                hb = {int(k2): int(v) for k2, v in s.gen_trace_header(tr).items()}
                ncmp += 1
                if ha != hb:
                    bad.append({'sig': 'reblock:trace-header-differs', 'detail': 'trace %d: fields %s' % (tr, [k2 for k2 in ha if ha[k2] != hb.get(k2)][:5])})
                    break
            for k2 in sp.stored:
                ncmp += 1
                if not np.array_equal(np.asarray(r.get_tracefield_values(k2)), np.asarray(s.get_tracefield_values(k2))):
                    bad.append({'sig': 'reblock:tracefield-array-differs', 'detail': 'field %d' % k2})
                    break
    nI, nX, nZ = sp.shape

    def cls(n_):
        return '<64' if n_ < 64 else '=64' if n_ == 64 else '<128' if n_ < 128 else '>=128'
    strata = ['kind:' + case['kind'], 'prehistory:%s' % bool(case.get('prehistory')), 'export-first:%s' % bool(case.get('export_first')), 'il:' + cls(nI), 'xl:' + cls(nX), 'z:%s' % ('>1024' if nZ > 1024 else '=1024' if nZ == 1024 else '<=4' if nZ <= 4 else 'mid'),
              'narr:%d' % min(sp.narr, 3), '4n%%512:%s' % ('0' if sp.hlen % 512 == 0 else 'nz'), 'il%%4:%d' % (nI % 4), 'xl%%4:%d' % (nX % 4),
              'footer:' + ('padded' if sp.post_021 else 'unpadded')]
    return {'violations': bad, 'counters': {'reblocks': 1, 'compared': ncmp, 'source_range_reads': len(shadow.log), 'slow_worker_seeks': mf.worker_seeks if not b else 0}, 'strata': strata,
            'key': case['id'], 'nontrivial': True}


def finalize(tier, cases, results, counters, strata):
    reasons = []
    need = ['kind:wspec', 'kind:wspec-irregular', 'kind:segy', 'kind:segy-irregular', 'refusal', 'il:<64', 'il:<128', 'xl:<64', 'z:>1024', 'z:mid',
            'footer:padded', 'footer:unpadded', 'il%4:0', 'xl%4:0', 'export-first:True']
    for s in need:
        if s not in strata:
            reasons.append('required stratum not hit: ' + s)
    if counters.get('source_range_reads', 0) == 0:
        reasons.append('storage monitor saw no read of the re-blocker')
    return {}, reasons

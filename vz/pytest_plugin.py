"""pytest plugin (-p vz.pytest_plugin): the repository's OWN test suite run under the monitors.

Installed at configure time, before any test module imports the package's names:
  * postconditions on the real writer entry points (SeismicFileConverter.run, NumpyConverter.run,
    SgzConverter.convert_to_adv_sgz, SgzCropper.write_cropped_file_by_indexes / _by_coords): when the call returns
    normally, the file it wrote is checked by the C03 conformance checker and its independent O-SPEC decode is compared
    bitwise with what the package's own reader returns for read_volume()/read_subplane() (C02's monitor);
  * the native-boundary contracts on zfpy.compress_numpy / zfpy._decompress (record only);
  * a storage monitor on seismic_zfp.utils.read_range_file: every range read the tests cause must be answered in full
    or raise (no short answer is passed on).
Every monitor counts its evaluations; the result is written as JSON to $VZ_PLUGIN_OUT at session end.
A monitor that fires here is either too strict or a defect the repository's tests do not assert."""
import functools
import json
import os

RES = {'writer_calls': 0, 'files_checked': 0, 'volumes_compared': 0, 'violations': [], 'contract_compress': 0, 'contract_decompress': 0,
       'contract_breaches': [], 'range_reads': 0, 'short_reads_passed_on': 0, 'by_entry_point': {}}
_proxy = None


def _post(path, tag, truth=None):
    from vz import conform, oracles
    if not isinstance(path, (str, bytes, os.PathLike)) or not os.path.exists(path):
        return
    bad, sp = conform.check(path, truth or {}, tag=tag + ':')
    RES['files_checked'] += 1
    RES['by_entry_point'][tag] = RES['by_entry_point'].get(tag, 0) + 1
    for b in bad:
        RES['violations'].append({'sig': b['sig'], 'detail': '%s: %s' % (os.path.basename(str(path)), b['detail'])})
    if sp is not None and not bad:
        try:
            from seismic_zfp.read import SgzReader
            V = sp.decode()
            with SgzReader(path) as r:
                W = r.read_subplane(0, sp.shape[0], 0, sp.shape[1]) if sp.is2d else r.read_volume()
            RES['volumes_compared'] += 1
            if W.shape != V.shape or W.tobytes() != V.tobytes():
                RES['violations'].append({'sig': tag + ':reader-differs-from-spec-decode', 'detail': os.path.basename(str(path))})
        except oracles.SpecError as e:
            RES['violations'].append({'sig': tag + ':spec-decode-failed', 'detail': '%s: %s' % (os.path.basename(str(path)), e)})


def _wrap(cls, name, tag, truth_of=None):
    real = getattr(cls, name)

    @functools.wraps(real)
    def wrapper(self, out, *a, **k):
        res = real(self, out, *a, **k)
        RES['writer_calls'] += 1
        try:
            _post(out, tag, truth_of(self, a, k) if truth_of else None)
        except Exception as e:  # noqa  (the monitor must not change the outcome of the test)
            RES['violations'].append({'sig': tag + ':monitor-error', 'detail': repr(e)})
        return res
    setattr(cls, name, wrapper)


def _run_truth(self, a, k):
    t = {}
    bpv = k.get('bits_per_voxel', a[0] if a else 4)
    try:
        bpv = float(bpv)
        if bpv > 0:
            t['rate'] = bpv if bpv < 1 else int(bpv)
    except (TypeError, ValueError):
        pass
    return t


def pytest_configure(config):
    global _proxy
    import seismic_zfp.conversion as C
    import seismic_zfp.cropping as K
    import seismic_zfp.utils as U
    from vz import monitors
    _proxy = monitors.install_native_contracts(enforce=False)
    _wrap(C.SeismicFileConverter, 'run', 'SeismicFileConverter.run', _run_truth)
    _wrap(C.NumpyConverter, 'run', 'NumpyConverter.run', _run_truth)
    _wrap(C.SgzConverter, 'convert_to_adv_sgz', 'SgzConverter.convert_to_adv_sgz', lambda s, a, k: {'rate': 2, 'bs': (64, 64, 4)})
    _wrap(K.SgzCropper, 'write_cropped_file_by_indexes', 'SgzCropper.by_indexes')
    _wrap(K.SgzCropper, 'write_cropped_file_by_coords', 'SgzCropper.by_coords')
    real_rr = U.read_range_file

    def read_range_file(file, offset, length):
        data = real_rr(file, offset, length)
        RES['range_reads'] += 1
        if len(data) != length:
            RES['short_reads_passed_on'] += 1
        return data
    U.read_range_file = read_range_file


def pytest_sessionfinish(session, exitstatus):
    if _proxy is not None:
        RES['contract_compress'], RES['contract_decompress'] = _proxy.n_compress, _proxy.n_decompress
        RES['contract_breaches'] = [str(b) for b in _proxy.breaches[:20]]
    RES['exitstatus'] = int(exitstatus)
    out = os.environ.get('VZ_PLUGIN_OUT')
    if out:
        json.dump(RES, open(out, 'w'), indent=1)

#!/bin/bash
# usage: tools/sweep.sh <tier> <seed-from> <seed-to> [props...]   -- prints only runs that did not exit 0
tier=$1; a=$2; b=$3; shift 3
props=${@:-C01 C02 C03 C04 C05 C06 C07 C08 C09 C10 C11 C12 C13 C14 C15 C16 C17 C18 C19 C20}
for s in $(seq $a $b); do
  for p in $props; do
    VERIF_SEED=$s /venv/bin/python -m vz check $p --tier $tier > sweep-$p-$s.log 2>&1; rc=$?
    if [ $rc -ne 0 ]; then echo "== rc=$rc $p seed=$s tier=$tier"; grep -E "what:|detail:|INCONCL" sweep-$p-$s.log | head -6 | cut -c1-400; else rm -f sweep-$p-$s.log; fi
  done
  echo "seed $s done $(date +%H:%M:%S)"
done

"""C19 configuration soundness: every (bits_per_voxel, blockshape) is either rejected cleanly or yields a
faithful, conformant file; the complete valid set is enumerated."""
import os
import random

import numpy as np

from .. import conform, conv, env, gen, oracles
from .c01 import valid_grid

ID, TITLE, LEVEL = 'C19', 'configuration soundness', 'exploration'
RULE = ('case = one (bits_per_voxel, blockshape) spelling x {3D NumPy conversion, 2D SEG-Y conversion} of a small cube, each in an '
        'isolated worker so that a native crash is attributed to it. The complete valid set (3D: 344 combinations of rate in '
        '{1/4..32} x power-of-two dims >= 4 with 32768 bits per block; 2D: (1,b,c) likewise) is enumerated, each also with one '
        'parameter left -1 / string / negative-reciprocal spelling; near-misses: non powers of two, dims 1-3, products off by a '
        'factor, two -1, rate 0, 3, 64, 1/8, 0.3, reciprocals -3..-16. Outcome classes: rejected cleanly (exception and no output '
        'file), faithful (read_volume bitwise = per-cell ZFP image, conformance incl. resolved blockshape), anything else = '
        'violation (unfaithful, unreadable, crash, partial file left). distinct = distinct (dimensionality, rate, blockshape, '
        'spelling); non-trivial = every case (each is one decision)')
ASSUMPTIONS = ['validity oracle: rate in {1/4,1/2,1,2,4,8,16,32}, dims powers of two >= 4 (first = 1 for 2D), product x rate = 32768']


def is_valid(rate, bs, is2d):
    if rate not in oracles.VALID_RATES:
        return False
    dims = bs[1:] if is2d else bs
    if is2d and bs[0] != 1:
        return False
    if any((not isinstance(b, int)) or b < 4 or b & (b - 1) for b in dims):
        return False
    return int(np.prod(dims)) * rate == 32768


def valid_2d_all():
    out = []
    for rate in oracles.VALID_RATES:
        k = int(round(np.log2(32768 / rate)))
        for b in range(2, k - 1):
            out.append((rate, (1, 2 ** b, 2 ** (k - b))))
    return out


def spellings(rate, bs, rng, all_=False):
    """[(rate_arg, bs_arg, label)] denoting the same setting."""
    out = [(rate, tuple(bs), 'full')]
    opts = []
    for i in range(3):
        if bs[i] != 1:
            b = list(bs)
            b[i] = -1
            opts.append((rate, tuple(b), 'bs%d=-1' % i))
    opts.append((-1, tuple(bs), 'rate=-1'))
    opts.append((str(rate), tuple(bs), 'rate-str'))
    opts.append((rate, tuple(bs), 'numpy-dims'))          # block dimensions given as narrow NumPy integers (run_case converts)
    if rate < 1:
        opts.append((-int(round(1 / rate)), tuple(bs), 'rate-negative-reciprocal'))
    if all_:
        return out + opts
    return out + [rng.choice(opts)]


def cases(tier, seed):
    rng = random.Random('C19/%s' % seed)
    out = []
    for rate, bs in valid_grid():
        for r_arg, b_arg, lab in spellings(rate, bs, rng, all_=tier != 'quick'):
            out.append({'id': '3d:valid:%s:%s:%s' % (rate, 'x'.join(map(str, bs)), lab), 'dim': '3d', 'rate_arg': r_arg, 'bs_arg': list(b_arg),
                        'rate': rate, 'bs': list(bs), 'valid': True, 'spelling': lab, 'cost': 1})
    for rate, bs in valid_2d_all():
        for r_arg, b_arg, lab in spellings(rate, bs, rng, all_=tier != 'quick'):
            out.append({'id': '2d:valid:%s:%s:%s' % (rate, 'x'.join(map(str, bs)), lab), 'dim': '2d', 'rate_arg': r_arg, 'bs_arg': list(b_arg),
                        'rate': rate, 'bs': list(bs), 'valid': True, 'spelling': lab, 'cost': 1})
    # near misses
    nm = []
    n = 300 if tier == 'quick' else 5000
    rates = [0, 3, 64, 0.125, 0.3, 5, 6, 12, 24, 48, -3, -8, -16, -5, 128, 0.75, 1.5, '3', '0.125', -2, -4, 1, 2, 4, 8, 16, 32, 0.5, 0.25]
    dimsv = [1, 2, 3, 4, 5, 6, 8, 12, 16, 24, 32, 48, 64, 100, 128, 256, 512, 1024, 2048, 4096, 8192, -1]
    seen = set()
    # deterministic family: non-power-of-two rates whose FLOORED quotient for the free dimension is a power of two >= 4, i.e. settings
    # that look valid after resolution but do not fill the disk block
    fam = []
    for r in [3, 5, 6, 7, 9, 10, 11, 12, 13, 14, 15, 1.5, 1.75, 0.75, 0.3, 0.48, 24, 48, 0.9, 2.5]:
        for a in (4, 8, 16, 64):
            for b in (4, 16, 64, 256):
                q = int(32768 // (a * b * r))
                if q >= 4 and q & (q - 1) == 0 and a * b * q * r != 32768:
                    for pos in range(3):
                        bs = [a, b]
                        bs.insert(pos, -1)
                        fam.append((r, bs))
    rng.shuffle(fam)
    for r, bs in fam[:80 if tier == 'quick' else 600]:
        key = (False, str(r), tuple(bs))
        if key not in seen:
            seen.add(key)
            nm.append({'id': '3d:near:floor:%s:%s' % (r, 'x'.join(map(str, bs))), 'dim': '3d', 'rate_arg': r, 'bs_arg': bs, 'valid': None, 'spelling': 'near-miss', 'cost': 1})
    # deterministic family: bit rates above 32 (reached with bits_per_voxel=-1 and a block of fewer than 1024 voxels, or given outright):
    # whatever the writer does with them, its own reader must agree
    for r, bs in [(-1, [4, 4, 32]), (-1, [8, 8, 8]), (-1, [4, 4, 4]), (64, [4, 4, -1]), (-1, [16, 4, 4]), (-1, [1, 16, 16]), (-1, [1, 4, 4]), (64, [1, 16, -1]), (128, [1, 4, -1])]:
        key = (bs[0] == 1, str(r), tuple(bs))
        if key not in seen:
            seen.add(key)
            nm.append({'id': '%s:near:rate>32:%s:%s' % ('2d' if bs[0] == 1 else '3d', r, 'x'.join(map(str, bs))), 'dim': '2d' if bs[0] == 1 else '3d', 'rate_arg': r, 'bs_arg': bs,
                       'valid': None, 'spelling': 'near-miss', 'cost': 1})
    # deterministic family: 2D settings whose FIRST block dimension is left to be calculated (it is 1 by definition: anything else is not a 2D layout)
    # (only settings that would resolve to something other than 1: whether -1 may stand for the 1 itself is not for this check to demand)
    for r, bs in [(8, [-1, 16, 64]), (16, [-1, 4, 256]), (8, [-1, 64, 32]), (4, [-1, 16, 64]), (-1, [-1, 16, 256])]:
        key = (True, str(r), tuple(bs))
        if key not in seen:
            seen.add(key)
            nm.append({'id': '2d:near:first-dim-free:%s:%s' % (r, 'x'.join(map(str, bs))), 'dim': '2d', 'rate_arg': r, 'bs_arg': bs, 'valid': None, 'spelling': 'near-miss', 'cost': 1})
    n += len(nm)
    while len(nm) < n:
        is2d = rng.random() < 0.3
        r = rng.choice(rates)
        bs = [1 if is2d else rng.choice(dimsv), rng.choice(dimsv), rng.choice(dimsv)]
        if rng.random() < 0.5:
            # start from a valid setting and break one thing
            vr, vb = rng.choice(valid_grid()) if not is2d else rng.choice(valid_2d_all())
            bs = list(vb)
            r = vr
            how = rng.choice(['dim*2', 'dim/2', 'dim+1', 'rate*2', 'rate-odd', 'two-free', 'dim=3'])
            i = rng.randrange(1 if is2d else 0, 3)
            if how == 'dim*2':
                bs[i] *= 2
            elif how == 'dim/2':
                bs[i] //= 2
            elif how == 'dim+1':
                bs[i] += 1
            elif how == 'rate*2':
                r = vr * 2
            elif how == 'rate-odd':
                r = rng.choice([3, 5, 0.3, 0])
            elif how == 'two-free':
                bs[i] = -1
                r = -1
            else:
                bs[i] = 3
        p = 1
        for b in bs:
            p *= abs(b)
        if p > 2 ** 17:
            continue
        key = (is2d, str(r), tuple(bs))
        if key in seen:
            continue
        seen.add(key)
        nm.append({'id': '%s:near:%s:%s' % ('2d' if is2d else '3d', r, 'x'.join(map(str, bs))), 'dim': '2d' if is2d else '3d', 'rate_arg': r, 'bs_arg': bs,
                   'valid': None, 'spelling': 'near-miss', 'cost': 1})
    out = out + nm
    if tier == 'thorough':
        out.append({'id': 'memcheck:boundary-rates', 'kind': 'memcheck', 'workload': 'boundary-rates', 'cost': 60})
    return out


def effective(rate_arg, bs_arg):
    """The setting a spelling denotes (None if it does not denote one)."""
    try:
        r = float(rate_arg) if isinstance(rate_arg, str) else rate_arg
        if r is not None and r < -1:
            r = 1.0 / -r
        bs = list(bs_arg)
        free = [i for i, b in enumerate(bs) if b == -1] + (['r'] if r == -1 else [])
        if len(free) > 1:
            return None
        if any(b == 0 or b < -1 for b in bs) or (r != -1 and r <= 0):
            return None
        if r == -1:
            r = 32768 / np.prod(bs)
        elif free:
            rest = np.prod([b for b in bs if b != -1]) * r
            q = 32768 / rest
            if q != int(q):
                return None
            bs[free[0]] = int(q)
        r = int(r) if float(r).is_integer() else float(r)
        return r, tuple(int(b) for b in bs)
    except Exception:  # noqa
        return None


def on_crash(case, r):
    return [{'sig': '%s:native-crash-%s' % (case['dim'], 'valid-setting' if case.get('valid') else 'near-miss'),
             'detail': 'rate %r blockshape %r: worker died with %s\n%s' % (case['rate_arg'], case['bs_arg'], r['crash'], r.get('stderr', '')[-400:])}]



def run_memcheck_case(case):
    """thorough tier: the named bounded workload under valgrind memcheck, contracts off; only errors with a frame in libzfp/zfpy count."""
    import os
    from .. import memcheck
    pin = os.environ.get('PYTHONPATH', '').split(os.pathsep)[0]
    r = memcheck.run_workload(case['workload'], pin)
    bad = []
    if not r.get('done'):
        return {'inconclusive': 'memcheck workload %s did not finish: rc=%s %s %s' % (case['workload'], r.get('rc'), r.get('stdout_tail'), r.get('stderr_tail')),
                'counters': {'memcheck_runs': 1}}
    for e in r['errors_in_codec'][:5]:
        bad.append({'sig': 'memcheck:%s-in-codec' % e['kind'], 'detail': '%s: %s; frames %s' % (case['workload'], e['what'], e['frames'])})
    if 'ACCEPTED-SUBMINIMUM' in r.get('stdout_tail', ''):
        bad.append({'sig': 'memcheck:sub-minimum-rate-accepted', 'detail': r['stdout_tail']})
    return {'violations': bad, 'counters': {'memcheck_runs': 1, 'memcheck_errors_total_any_frame': r['errors_total'], 'memcheck_errors_in_codec': len(r['errors_in_codec'])},
            'strata': ['memcheck:' + case['workload']], 'key': case['id']}


def run_case(case, ctx):
    if case.get('kind') == 'memcheck':
        return run_memcheck_case(case)
    from seismic_zfp.read import SgzReader
    sc = ctx['scratch']
    is2d = case['dim'] == '2d'
    out = sc.file('o.sgz')
    r_arg, b_arg = case['rate_arg'], tuple(case['bs_arg'])
    eff = effective(r_arg, b_arg)
    if case.get('spelling') == 'numpy-dims':
        b_arg = tuple(np.uint16(b) if b > 255 else np.uint8(b) for b in b_arg)
    valid = bool(eff and is_valid(eff[0], eff[1], is2d))
    if case.get('valid') and not valid:
        return {'harness_error': 'validity oracle disagrees with the enumerated valid set for %s' % case['id']}
    # a small cube: just above one cell per axis, capped
    if is2d:
        # trace count: a few traces, or (for half of the valid settings) exactly one / two full trace groups of the resolved blockshape
        import zlib
        nT2 = 7
        if eff and valid and eff[1][1] <= 2048 and zlib.crc32(case['id'].encode()) % 2 == 0:
            nT2 = eff[1][1] * (1 + zlib.crc32(case['id'].encode()) // 2 % 2)
        D = gen.cube((nT2, 9), 3)
        sgy = sc.file('s.sgy')
        hdrs = [{1: t + 1, 21: 10 + t} for t in range(nT2)]
        gen.make_segy_traces(sgy, list(D), hdrs, fmt=5)
        D = gen.source_traces(sgy)
    else:
        D = gen.cube((5, 6, 7), 3)
    bad = []
    outcome = None
    paths = 0
    try:
        if is2d:
            conv.convert_segy(sgy, out, r_arg, b_arg)
        else:
            conv.convert_numpy(D, out, r_arg, b_arg)
    except Exception as e:  # noqa
        outcome = 'rejected'
        if os.path.exists(out):
            outcome = 'rejected-left-file'
            bad.append({'sig': '%s:rejection-leaves-output-file' % case['dim'], 'detail': 'rate %r blockshape %r raised %s but %d-byte output exists'
                        % (r_arg, b_arg, type(e).__name__, os.path.getsize(out))})
        elif valid:
            cls = 'rate-below-1' if is2d and eff[0] < 1 else 'other'
            bad.append({'sig': '%s:valid-setting-rejected:%s' % (case['dim'], cls),
                        'detail': 'rate %r blockshape %r (= %s) is a valid setting but raised %s: %s' % (r_arg, b_arg, eff, type(e).__name__, str(e)[:200])})
    if outcome is None:
        # accepted: must be faithful
        rate, bs = eff if eff else (None, None)
        try:
            with SgzReader(out) as r:
                V = r.read_subplane(0, D.shape[0], 0, D.shape[1]) if r.is_2d else r.read_volume()
                rr, rbs = r.rate, tuple(r.blockshape)
            img = oracles.image(D, rr) if oracles.codec_min_ok(rr, D.ndim) else None
            faithful = img is not None and V.shape == img.shape and V.tobytes() == img.tobytes()
            truth = {'shape': D.shape, 'data_image': img}
            if valid:
                truth.update(rate=eff[0], bs=eff[1])
            b, sp = conform.check(out, truth, tag=case['dim'] + ':')
            if not faithful or b:
                outcome = 'unfaithful'
                bad.append({'sig': '%s:accepted-setting-unfaithful-%s' % (case['dim'], 'valid' if valid else 'near-miss'),
                            'detail': 'rate %r blockshape %r accepted (file says rate %s bs %s): volume %s, conformance %s'
                                      % (r_arg, b_arg, rr, rbs, 'ok' if faithful else 'differs from codec image', [x['sig'] for x in b][:4])})
            else:
                outcome = 'faithful'
        except Exception as e:  # noqa
            outcome = 'unreadable'
            bad.append({'sig': '%s:accepted-setting-unreadable-%s' % (case['dim'], 'valid' if valid else 'near-miss'),
                        'detail': 'rate %r blockshape %r accepted but the file cannot be read: %s: %s' % (r_arg, b_arg, type(e).__name__, str(e)[:200])})
    if valid and not is2d and outcome == 'faithful' and case['spelling'] == 'full':
        # the same setting through the SEG-Y route, on a cube with more than one block along the trace where that is affordable
        nz = eff[1][2] + 3 if eff[1][2] <= 1024 else 7
        # (several plane sets of the block's own inline count, so that footprints that are not square show)
        import zlib
        big = eff[1][0] <= 64 and (eff[1][0] != eff[1][1] or zlib.crc32(case['id'].encode()) % 2 == 0)
        D2 = gen.cube((2 * eff[1][0] + 1 if big else 5, 6, nz), 4)
        sgy3 = sc.file('s3.sgy')
        gen.make_segy(sgy3, D2, fmt=5)
        out2 = sc.file('o2.sgz')
        try:
            conv.convert_segy(sgy3, out2, r_arg, b_arg, reduce_iops=bool(eff[1][1] % 8))
            with SgzReader(out2) as r:
                V2 = r.read_volume()
                import segyio
                with segyio.open(sgy3) as f_:
                    for t_ in sorted({0, f_.tracecount // 2, f_.tracecount - 1}):
                        hs = {int(k_): int(v_) for k_, v_ in f_.header[t_].items()}
                        hz = {int(k_): int(v_) for k_, v_ in r.gen_trace_header(t_).items()}
                        if hs != hz:
                            outcome = 'unfaithful'
                            bad.append({'sig': '3d:accepted-setting-unfaithful-valid', 'detail': 'SEG-Y route, rate %r blockshape %r, cube %s: header of trace %d differs in %s'
                                        % (r_arg, b_arg, D2.shape, t_, [k_ for k_ in hs if hs[k_] != hz.get(k_)][:4])})
                            break
                # ... through the other access paths too (lines, slices, windows crossing block boundaries, traces): the same image
                img2 = oracles.image(D2, eff[0])
                if V2.tobytes() == img2.tobytes():
                    import random as _random
                    from .. import reads
                    rng_ = _random.Random(case['id'])
                    ops_ = reads.ops_3d(D2.shape, eff[1], rng_, 14)
                    if D2.shape[2] > eff[1][2]:
                        # windows exactly one sample block long, several trace columns wide
                        ops_ += [('read_subvolume', (0, D2.shape[0], 0, D2.shape[1], 0, eff[1][2])), ('read_subvolume', (1, D2.shape[0], 1, D2.shape[1], 0, eff[1][2]))]
                    b_, k_ = reads.check_ops(r, ops_, lambda op: reads.expected_3d(img2, op), tag='3d:accepted-setting-unfaithful-valid:')
                    paths += k_
                    for x_ in b_[:2]:
                        outcome = 'unfaithful'
                        x_['detail'] = 'SEG-Y route, rate %r blockshape %r, cube %s: %s' % (r_arg, b_arg, D2.shape, x_['detail'])
                        bad.append(x_)
            if V2.tobytes() != oracles.image(D2, eff[0]).tobytes():
                outcome = 'unfaithful'
                bad.append({'sig': '3d:accepted-setting-unfaithful-valid', 'detail': 'SEG-Y route, rate %r blockshape %r, cube %s: volume differs from codec image'
                            % (r_arg, b_arg, D2.shape)})
        except Exception as e:  # noqa
            bad.append({'sig': '3d:valid-setting-rejected:other', 'detail': 'SEG-Y route, rate %r blockshape %r: %s: %s' % (r_arg, b_arg, type(e).__name__, str(e)[:200])})
    strata = ['dim:' + case['dim'], 'outcome:' + outcome, 'class:' + ('valid' if valid else 'invalid'), 'spelling:' + case['spelling']]
    if valid:
        strata.append('rate:%s' % eff[0])
    return {'violations': bad, 'counters': {'outcome_' + outcome: 1, 'valid_settings' if valid else 'invalid_settings': 1, 'access_path_reads_compared': paths}, 'strata': strata,
            'key': '%s|%s|%s' % (case['dim'], r_arg, b_arg)}


def finalize(tier, cases, results, counters, strata):
    reasons = []
    need = ['dim:3d', 'dim:2d', 'outcome:faithful', 'outcome:rejected', 'class:valid', 'class:invalid', 'spelling:full', 'spelling:rate=-1', 'spelling:near-miss'] + \
           ['rate:%s' % r for r in oracles.VALID_RATES]
    for s in need:
        if s not in strata:
            reasons.append('required stratum not hit: ' + s)
    nvalid3 = len(valid_grid())
    nvalid2 = len(valid_2d_all())
    done3 = len([c for c in cases if c.get('valid') and c['dim'] == '3d' and c['spelling'] == 'full' and c['id'] in results])
    done2 = len([c for c in cases if c.get('valid') and c['dim'] == '2d' and c['spelling'] == 'full' and c['id'] in results])
    extra = {'valid_3d_settings': nvalid3, 'valid_2d_settings': nvalid2, 'valid_3d_run': done3, 'valid_2d_run': done2}
    if done3 == nvalid3 and done2 == nvalid2:
        extra['exhaustive'] = True
        extra['exhaustive_scope'] = 'the valid configuration set (3D %d + 2D %d combinations); near-misses are sampled' % (nvalid3, nvalid2)
    else:
        reasons.append('valid set not enumerated completely')
    return extra, reasons

"""C04 trace-header and file-header preservation: every accessor x every trace x all 89 fields vs segyio
on the source, per detection mode; NumPy-route header dicts."""
import random

import numpy as np
import segyio

from .. import conform, conv, env, gen, oracles
from ..oracles import KEYS

ID, TITLE, LEVEL = 'C04', 'trace-header and file-header preservation', 'exploration'
RULE = ('case = one generated SEG-Y (regular / irregular / 2D; header content from a model with constant, varying, '
        'duplicated, negative, extreme, zero-first classes and - outside the heuristic precondition - hidden and '
        'coinciding fields) x one detection mode, or one NumpyConverter header dict (field subsets below/between/above '
        '189/193, integer dtypes, C/F order, broadcast views); monitors compare gen_trace_header (both paths), '
        'emulator header[i], get_tracefield_values, bin, text and raw file-header bytes with segyio on the source for '
        'EVERY trace and all 89 fields. distinct = distinct (geometry, trace count class, field classes, mode); '
        'non-trivial = at least one varying field and >= 2 traces')
ASSUMPTIONS = ['segyio returns the true header values of the generated SEG-Y (O-SRC)']
MODES = ['heuristic', 'thorough', 'exhaustive', 'strip']
INT_DTYPES = ['int8', 'int16', 'int32', 'int64', 'uint8', 'uint16', 'uint32', 'uint64', '>i4', '>i2', '>i8', '>u4', '<i4']   # incl. non-native byte order


def cases(tier, seed):
    rng = random.Random('C04/%s' % seed)
    out = []
    n = 80 if tier == 'quick' else 500
    # (nI, nX): 4*n mod 512 classes 0 (128, 256), 4 (129), 508 (127), other
    grids = [(8, 16), (16, 16), (3, 43), (127, 1), (5, 5), (9, 7), (2, 64), (4, 32), (10, 13), (43, 3), (6, 11)]
    for i in range(n):
        geom = ['3d', '3d', 'irregular', '2d'][i % 4]
        inside = i % 4 != 3
        nf = rng.choice([3, 4, 5, 8]) if i % 3 else rng.choice([0, 1, 2])
        hdr = {'seed': rng.randrange(1 << 20), 'nfields': nf, 'inside': inside}
        if geom == '2d':
            nT = rng.choice([128, 129, 127, 256, 5, 17, 2, 3, 255, 40])
            src = conv.src_desc(rng, '2d', (nT, rng.choice([4, 9, 20])), how2d=rng.choice(['nonumbers', 'single-inline', 'single-crossline']), hdr=hdr,
                                valkind='smooth')
        else:
            nI, nX = rng.choice(grids)
            nX = max(2, nX)
            nI = max(2, nI)
            kw = {}
            if geom == 'irregular':
                nI, nX = max(nI, 3), max(nX, 3)
                # line numbers avoid 0 here (a line numbered 0 is a known finding decided by C08)
                kw = {'holes': conv.pick_holes(rng, nI, nX), 'il': [rng.choice([1, 5, 100, -500]), rng.choice([1, 2])],
                      'xl': [rng.choice([1, 20, -700]), rng.choice([1, 3])]}
                if i % 8 == 6:
                    # a whole interior line was never acquired and the line increment is not 1
                    ax = (i // 8) % 2
                    mh = conv.missing_line_holes(rng, nI, nX, axis=ax)
                    if mh:
                        kw['holes'] = mh
                        kw['il' if ax == 0 else 'xl'][1] = rng.choice([3, 10])
                        if any(kw['il'][0] + kw['il'][1] * j == 0 for j in range(nI)):
                            kw['il'][0] += 1          # (no inline numbered 0: C08's known finding)
                        kw['missing_line'] = True
            if geom == '3d' and i % 3 == 2:
                kw['sorting'] = 1        # crossline-sorted regular file
            src = conv.src_desc(rng, geom, (nI, nX, rng.choice([4, 9, 20])), hdr=hdr, valkind='smooth', **kw)
        for mode in (MODES if tier != 'quick' else [MODES[i % 4], MODES[(i + 1) % 4]]):
            out.append({'id': 'segy:%d:%s:%s' % (i, geom, mode), 'kind': 'segy', 'src': src, 'mode': mode, 'reduce_iops': rng.random() < 0.25,
                        'rate': rng.choice([4, 8, 2]), 'cost': 2})
    # regression witness of a fixed defect: crossline-sorted regular source
    out.append({'id': 'witness:crossline-sorted', 'kind': 'segy', 'mode': 'thorough', 'reduce_iops': False, 'rate': 4, 'cost': 1,
                'src': {'geom': '3d', 'shape': [5, 6, 7], 'il': [1, 1], 'xl': [10, 2], 'dt': 4000, 't0': 0, 'fmt': 5, 'ext': 0, 'cubeseed': 3, 'valkind': 'smooth',
                        'hdr': {'seed': 9, 'nfields': 2, 'inside': True}, 'sorting': 1}})
    m = 64 if tier == 'quick' else 400
    for i in range(m):
        # dtype / memory layout / key position are cycled deterministically (required strata must not depend on luck)
        out.append({'id': 'numpy:%d' % i, 'kind': 'numpy', 'nseed': rng.randrange(1 << 30), 'dtype': INT_DTYPES[i % len(INT_DTYPES)],
                    'layout': ['C', 'F', 'bcast'][i % 3], 'above': i % 2 == 0, 'cost': 1})
    return out


def cmp_header(got, want, where, bad, label):
    g = {int(k): int(v) for k, v in dict(got).items()}
    diff = [k for k in KEYS if g.get(k) != int(want[k])]
    if diff:
        bad.append({'sig': '%s:field-value-differs' % label,
                    'detail': '%s: field(s) %s read %s, source has %s' % (where, diff[:5], [g.get(k) for k in diff[:5]], [int(want[k]) for k in diff[:5]])})
        return False
    return True


def run_segy(case, ctx):
    import seismic_zfp
    from seismic_zfp.read import SgzReader
    src = conv.build_source(case['src'], ctx['scratch'])
    geom, mode = case['src']['geom'], case['mode']
    if src.get('segyio_structured'):
        return {'nontrivial': False, 'counters': {'skipped_segyio_infers_regular_cube': 1}}
    out = ctx['scratch'].file('o.sgz')
    # block footprints: square and not (the footer follows the data section, whose stated length depends on the padded extents)
    import zlib
    pick = zlib.crc32(case['id'].encode())
    bs = [(1, 16, -1), (1, 4, -1), (1, 64, -1)][pick % 3] if geom == '2d' else [(4, 4, -1), (4, 4, -1), (4, 16, -1), (16, 4, -1), (8, 4, -1), (8, 8, -1), (4, 8, -1)][pick % 7]
    if case['rate'] * bs[0] * bs[1] > 2048:
        bs = (1, 16, -1) if geom == '2d' else (4, 4, -1)
    conv.convert_segy(src['path'], out, case['rate'], bs, reduce_iops=case.get('reduce_iops', False), detection=mode)
    H = src['headers']
    n = src['ntraces']
    exact = conv.must_be_exact(src, mode)
    bad = []
    strata = {'footprint:%s' % ('square' if bs[0] == bs[1] or geom == '2d' else 'non-square'), 'geom:' + geom, 'mode:' + mode, '4n%%512:%s' % ({0: '0', 4: '4', 508: '508'}.get((4 * (n if geom == '2d' else int(np.prod(case['src']['shape'][:2])))) % 512, 'other'))}
    for c in src.get('hdr_classes', {}).values():
        strata.add('class:' + c)
    if case['src'].get('missing_line'):
        strata.add('irregular-missing-line')
    inside = gen.heuristic_precondition(H)
    strata.add('precondition:' + ('inside' if inside else 'outside'))
    if mode == 'strip':
        want_of = lambda t: {k: 0 for k in KEYS}    # noqa
    elif geom == '3d' and case['src'].get('sorting', 2) != 2:
        # crossline-sorted regular source: trace t of the SGZ is grid position (t // nX, t % nX) (that is what get_trace(t) decodes);
        # its header is that of the source trace at the same (inline, crossline), i.e. file index (t % nX) * nI + t // nX
        nI_, nX_ = case['src']['shape'][:2]
        want_of = lambda t: {k: H[k][(t % nX_) * nI_ + t // nX_] for k in KEYS}   # noqa
    else:
        want_of = lambda t: {k: H[k][t] for k in KEYS}   # noqa
    required = mode in ('thorough', 'exhaustive', 'strip') or inside
    compared = 0
    with SgzReader(out) as r:
        nstored = oracles.Spec(out).narr
        strata.add('arrays>=3' if nstored >= 3 else 'arrays<3')
        # file headers
        if bytes(r.headerbytes[4096:4096 + 3600]) != src['file_header']:
            bad.append({'sig': 'file-header:bytes-differ', 'detail': '3600-byte file header differs from the source'})
        with segyio.open(src['path'], strict=False, ignore_geometry=True) as f:
            sb = dict(f.bin)
            if {int(k): int(v) for k, v in dict(r.get_file_binary_header()).items()} != {int(k): int(v) for k, v in sb.items()}:
                bad.append({'sig': 'file-header:bin-differs', 'detail': 'binary header fields differ'})
            if bytes(r.get_file_text_header()[0]) != bytes(f.text[0]):
                bad.append({'sig': 'file-header:text-differs', 'detail': 'textual header differs'})
        if required:
            ok = True
            for t in range(n):
                ok = cmp_header(r.gen_trace_header(t), want_of(t), 'gen_trace_header(%d) mode %s geom %s n=%d' % (t, mode, geom, n), bad, 'gen_trace_header') and ok
                compared += 1
                if not ok:
                    break
    if required and not bad:
        with SgzReader(out) as r:
            for t in range(n):
                if not cmp_header(r.gen_trace_header(t, load_all_headers=True), want_of(t), 'gen_trace_header(%d, load_all_headers) mode %s geom %s' % (t, mode, geom), bad,
                                  'gen_trace_header-load-all'):
                    break
                compared += 1
        with seismic_zfp.open(out) as f:
            for t in list(range(n)) + [-1, -n]:
                tt = t % n
                if not cmp_header(f.header[t], want_of(tt), 'header[%d] mode %s geom %s' % (t, mode, geom), bad, 'emulator.header'):
                    break
                compared += 1
        with SgzReader(out) as r:
            G = conv.grid_fields(src)
            # the accessors are also mixed on ONE reader: a regenerated header, then every stored array, then headers again
            cmp_header(r.gen_trace_header(n - 1), want_of(n - 1), 'gen_trace_header(%d) before the tracefield reads, mode %s geom %s' % (n - 1, mode, geom), bad, 'gen_trace_header')
            for k in sorted(set(int(k) for k in r.stored_header_keys)):
                got = np.asarray(r.get_tracefield_values(k)).reshape(-1)
                want = G[k] if mode != 'strip' else np.zeros_like(G[k])
                compared += 1
                if got.shape != want.shape or not np.array_equal(got.astype(np.int64), want):
                    bad.append({'sig': 'get_tracefield_values:differs', 'detail': 'field %d mode %s geom %s n=%d: %d value(s) differ'
                                % (k, mode, geom, n, int((got != want).sum()) if got.shape == want.shape else -1)})
                    break
            # a word that has one value on every trace is an array of that value (the file stores no array for it)
            stored_ = set(int(k) for k in r.stored_header_keys)
            for k in [k for k in KEYS if k not in stored_][:: max(1, (len(KEYS) - len(stored_)) // 3)][:3]:
                want = G[k] if mode != 'strip' else np.zeros_like(G[k])
                real = np.ones(len(want), bool)
                if geom == 'irregular':
                    real[:] = False
                    real[[i_ * case['src']['shape'][1] + x_ for i_, x_ in src['positions']]] = True
                try:
                    got = np.asarray(r.get_tracefield_values(k)).reshape(-1)
                except Exception as e:  # noqa
                    bad.append({'sig': 'get_tracefield_values:invariant-field-raises-%s' % type(e).__name__, 'detail': 'field %d mode %s geom %s: %r' % (k, mode, geom, e)})
                    break
                compared += 1
                if got.shape != want.shape or not np.array_equal(got.astype(np.int64)[real], want[real]):
                    bad.append({'sig': 'get_tracefield_values:invariant-field-differs', 'detail': 'field %d mode %s geom %s n=%d' % (k, mode, geom, n)})
                    break
            if not bad:
                for t in (0, n // 2, n - 1):
                    cmp_header(r.gen_trace_header(t), want_of(t), 'gen_trace_header(%d) after the tracefield reads, mode %s geom %s' % (t, mode, geom), bad, 'gen_trace_header-after-tracefields')
                    compared += 1
            # every field that varies in the source must be retrievable as an array
            if mode in ('thorough', 'exhaustive'):
                for k in KEYS:
                    if not np.all(H[k] == H[k][0]) and k not in [int(x) for x in r.stored_header_keys]:
                        bad.append({'sig': 'varying-field-not-stored', 'detail': 'field %d varies in the source but is not stored (mode %s)' % (k, mode)})
                        break
    if case['src'].get('sorting', 2) != 2:
        strata.add('sorting:crossline')
        bad = [dict(v, sig='crossline-sorted:' + v['sig']) for v in bad]
    return {'violations': bad, 'counters': {'headers_compared': compared, 'files': 1, 'required_exact': int(required)}, 'strata': sorted(strata),
            'key': '%s|%s|%s|%s' % (geom, mode, n, sorted(src.get('hdr_classes', {}).values())),
            'nontrivial': n >= 2 and compared > 0}




def run_numpy(case, ctx):
    from seismic_zfp.read import SgzReader
    rng = random.Random(case['nseed'])
    nI, nX, nZ = rng.choice([(5, 5), (8, 16), (3, 43), (9, 7), (4, 32)]) + (rng.choice([4, 9]),)
    data = gen.cube((nI, nX, nZ), rng.randrange(1000))
    il = rng.choice([0, 10, -5]) + rng.choice([1, 2]) * np.arange(nI)
    xl = rng.choice([0, 100]) + rng.choice([1, 3]) * np.arange(nX)
    # subset of fields: below 189, between 189 and 193 (none exists), above 193, with/without 189/193
    pool = [k for k in KEYS if k not in (189, 193)]
    keys = rng.sample([k for k in pool if k < 189], rng.randint(1, 3))
    if case.get('above', rng.random() < 0.5):
        keys.append(rng.choice([k for k in pool if k > 193]))
    give_il, give_xl = rng.random() < 0.4, rng.random() < 0.4
    hd, want = {}, {}
    strata = set()
    for j, k in enumerate(keys):
        dt = case.get('dtype') if j == 0 and case.get('dtype') else rng.choice(INT_DTYPES)
        info = np.iinfo(np.dtype(dt))
        lo, hi = max(info.min, -2 ** 31), min(info.max, 2 ** 31 - 1)
        a = np.array([[rng.randint(lo, hi) for _ in range(nX)] for _ in range(nI)]).astype(np.dtype(dt))
        lay = case.get('layout') if j == 0 and case.get('layout') else rng.choice(['C', 'F', 'bcast'])
        if lay == 'F':
            a = np.asfortranarray(a)
        elif lay == 'bcast':
            a = np.broadcast_to(a[:, :1], (nI, nX))
        hd[int(k)] = a
        want[k] = np.asarray(a).astype(np.int64).reshape(-1)
        strata.update(['dtype:' + dt, 'layout:' + lay, 'key:%s' % ('below189' if k < 189 else 'above193')])
    if give_il:
        hd[189] = np.broadcast_to(il[:, None], (nI, nX)).astype(rng.choice(['int32', 'int64']))
    if give_xl:
        hd[193] = np.broadcast_to(xl, (nI, nX)).astype(rng.choice(['int32', 'int64']))
    want[189] = np.repeat(il, nX).astype(np.int64)
    want[193] = np.tile(xl, nI).astype(np.int64)
    strata.add('ilxl:%s%s' % ('given' if give_il else 'default', 'given' if give_xl else 'default'))
    out = ctx['scratch'].file('n.sgz')
    conv.convert_numpy(data, out, 4, (4, 4, -1), ilines=None if give_il and rng.random() < 0.5 else il,
                       xlines=None if give_xl and rng.random() < 0.5 else xl, trace_headers=hd)
    bad = []
    n = 0
    b, sp = conform.check(out, {'shape': (nI, nX, nZ), 'ilines': il, 'xlines': xl, 'fields': want, 'ntraces': nI * nX}, tag='numpy:')
    bad += b
    with SgzReader(out) as r:
        for k, w in want.items():
            n += 1
            try:
                got = np.asarray(r.get_tracefield_values(k)).reshape(-1).astype(np.int64)
            except Exception as e:  # noqa
                bad.append({'sig': 'numpy:get_tracefield_values-raises-%s' % type(e).__name__, 'detail': 'field %d: %r' % (k, e)})
                continue
            if not np.array_equal(got, w):
                bad.append({'sig': 'numpy:header-array-differs', 'detail': 'field %d dtype %s keys %s: %d value(s) differ'
                            % (k, getattr(hd.get(int(k)), 'dtype', 'default'), sorted(want), int((got != w).sum()))})
        for t in [0, nI * nX - 1, rng.randrange(nI * nX)]:
            h = {int(k): int(v) for k, v in r.gen_trace_header(t).items()}
            n += 1
            for k, w in want.items():
                if h[k] != int(w[t]):
                    bad.append({'sig': 'numpy:gen_trace_header-differs', 'detail': 'trace %d field %d: %d != %d' % (t, k, h[k], int(w[t]))})
                    break
    return {'violations': bad, 'counters': {'headers_compared': n, 'files': 1}, 'strata': sorted(strata) + ['geom:numpy'],
            'key': 'numpy|%s|%s' % (sorted(want), sorted(strata)), 'nontrivial': True}


def run_case(case, ctx):
    return run_segy(case, ctx) if case['kind'] == 'segy' else run_numpy(case, ctx)


def finalize(tier, cases, results, counters, strata):
    reasons = []
    need = ['footprint:square', 'footprint:non-square', 'geom:3d', 'geom:irregular', 'geom:2d', 'geom:numpy', 'mode:heuristic', 'mode:thorough', 'mode:exhaustive', 'mode:strip',
            'class:const', 'class:vary', 'class:dup', 'class:extreme', 'class:neg', 'class:zerofirst', 'arrays>=3', '4n%512:0',
            'precondition:inside', 'irregular-missing-line', 'dtype:int64', 'dtype:int16', 'layout:F', 'layout:bcast', 'key:above193', 'key:below189']
    for s in need:
        if s not in strata:
            reasons.append('required stratum not hit: ' + s)
    if counters.get('headers_compared', 0) == 0:
        reasons.append('no header compared')
    return {}, reasons

"""Driving every public read path of an SGZ file and comparing with a reference volume.

Used by C02 (reference = O-SPEC decode), C10/C11/C12 (reference = source file restricted), C15/C17/C18
(reference = fresh reader / complete file).  Comparisons are bit-for-bit on float32 (float64
widening by the diagonal readers is accepted as exact) and include the shape."""
import numpy as np


def same(got, exp):
    got, exp = np.asarray(got), np.asarray(exp)
    if got.shape != exp.shape:
        return 'shape %s != %s' % (got.shape, exp.shape)
    a = np.ascontiguousarray(got, dtype=np.float64)
    b = np.ascontiguousarray(exp, dtype=np.float64)
    if a.tobytes() != b.tobytes():
        bad = np.argwhere(~((a == b) | (np.isnan(a) & np.isnan(b))))
        return 'values differ at %d position(s), first %s' % (len(bad), tuple(bad[0]) if len(bad) else '?')
    return None


def norm(v):
    """Hashable normal form of any read result (for history / fault comparisons)."""
    if isinstance(v, dict) or (hasattr(v, 'keys') and hasattr(v, 'items')):
        return ('dict', tuple(sorted((int(k), int(x)) for k, x in v.items())))
    if isinstance(v, (list, tuple)):
        return ('list', tuple(norm(x) for x in v))
    if isinstance(v, (bytes, bytearray)):
        return ('bytes', bytes(v))
    a = np.asarray(v)
    if a.dtype.kind in 'iu':
        return ('iarr', a.shape, np.ascontiguousarray(a, dtype=np.int64).tobytes())
    if a.dtype.kind == 'b':
        return ('barr', a.shape, a.tobytes())
    return ('arr', a.shape, np.ascontiguousarray(a, dtype=np.float64).tobytes())


def run_op(obj, op, keep=None):
    """op = (method-or-path, args[, kwargs]).  Returns ('ok', norm) or ('exc', type name).
    keep: list that receives (op, the returned object itself, its normal form) for array results (retention monitor)."""
    name, args = op[0], op[1]
    kw = op[2] if len(op) > 2 else {}
    try:
        target = obj
        for part in name.split('.'):
            target = getattr(target, part)
        if name.endswith(']'):
            raise AttributeError(name)
        res = target(*args, **kw)
        n_ = norm(res)
        if keep is not None and isinstance(res, np.ndarray) and res.size <= 2_000_000:
            keep.append((op, res, n_))
        return ('ok', n_)
    except Exception as e:  # noqa
        return ('exc', type(e).__name__)


def residue_points(n, b, rng, k=6):
    """In-range positions 0..n-1 hitting distinct residues mod 4 and mod b, both ends, plus random."""
    pts = {0, n - 1, min(3, n - 1), min(4, n - 1), min(b - 1, n - 1), min(b, n - 1), min(b + 1, n - 1), n // 2}
    for _ in range(k):
        pts.add(rng.randrange(n))
    return sorted(p for p in pts if 0 <= p < n)


def rand_range(n, b, rng):
    """Half-open in-range range [lo,hi) with ends biased to block / cell boundaries +-1."""
    cands = sorted({0, n, 1, n - 1} | {x for m in (4, b) for q in range(0, n + m, m) for x in (q - 1, q, q + 1)
                                      if 0 <= x <= n})
    if rng.random() < 0.3:
        lo = rng.randrange(n)
        hi = rng.randrange(lo + 1, n + 1)
    else:
        lo = rng.choice([c for c in cands if c < n])
        hi = rng.choice([c for c in cands if c > lo])
    return lo, hi


def ops_3d(dims, bs, rng, n, tracecount=None, structured=True):
    """In-range operations on a 3D reader; stratified on residues of every bound."""
    nI, nX, nZ = dims
    nT = tracecount if tracecount is not None else nI * nX
    ops = []
    kinds = ['il', 'xl', 'z', 'sub', 'sub', 'trace', 'tracew', 'cd', 'ad', 'cdw', 'adw', 'vol']
    for j in range(n):
        k = kinds[j % len(kinds)] if j < 2 * len(kinds) else rng.choice(kinds)
        if k == 'il':
            ops.append(('read_inline', (rng.choice(residue_points(nI, bs[0], rng, 1)),)))
        elif k == 'xl':
            ops.append(('read_crossline', (rng.choice(residue_points(nX, bs[1], rng, 1)),)))
        elif k == 'z':
            ops.append(('read_zslice', (rng.choice(residue_points(nZ, bs[2], rng, 1)),)))
        elif k == 'sub':
            (a, b), (c, d), (e, f) = rand_range(nI, bs[0], rng), rand_range(nX, bs[1], rng), rand_range(nZ, bs[2], rng)
            ops.append(('read_subvolume', (a, b, c, d, e, f)))
        elif k == 'trace':
            ops.append(('get_trace', (rng.randrange(nT),)))
        elif k == 'tracew':
            e, f = rand_range(nZ, bs[2], rng)
            ops.append(('get_trace', (rng.randrange(nT), e, f)))
        elif k == 'cd':
            ops.append(('read_correlated_diagonal', (rng.randrange(-nX + 1, nI),)))
        elif k == 'ad':
            ops.append(('read_anticorrelated_diagonal', (rng.randrange(nI + nX - 1),)))
        elif k in ('cdw', 'adw'):
            if k == 'cdw':
                d = rng.randrange(-nX + 1, nI)
                L = len([i for i in range(nI) if 0 <= i - d < nX])
                name = 'read_correlated_diagonal'
            else:
                d = rng.randrange(nI + nX - 1)
                L = len([i for i in range(nI) if 0 <= d - i < nX])
                name = 'read_anticorrelated_diagonal'
            a = rng.randrange(L)
            b = rng.randrange(a + 1, L + 1)
            e, f = rand_range(nZ, bs[2], rng)
            r_ = rng.random()
            if r_ < 0.12:
                # one-sided windows
                ops.append((name, rng.choice([(d, a), (d, None, b), (d, None, None, e), (d, None, None, None, f), (d, a, None, None, f)])))
            elif r_ < 0.3:
                ops.append((name, (d, a, b)))
            elif rng.random() < 0.5:
                ops.append((name, (d, None, None, e, f)))
            else:
                ops.append((name, (d, a, b, e, f)))
        elif k == 'vol':
            ops.append(('read_volume', ()))
    return ops


def ops_2d(nT, nZ, bs, rng, n):
    ops = []
    for j in range(n):
        k = ['trace', 'sub', 'tracew', 'full'][j % 4] if j < 8 else rng.choice(['trace', 'sub', 'sub', 'tracew'])
        if k == 'trace':
            ops.append(('get_trace', (rng.randrange(nT),)))
        elif k == 'tracew':
            lo, hi = rand_range(nZ, bs[2], rng)
            ops.append(('get_trace', (rng.randrange(nT), lo, hi)))
        elif k == 'sub':
            (a, b), (c, d) = rand_range(nT, bs[1], rng), rand_range(nZ, bs[2], rng)
            ops.append(('read_subplane', (a, b, c, d)))
        else:
            ops.append(('read_subplane', (0, nT, 0, nZ)))
    return ops


def expected_3d(V, op, grid_of=None):
    """Reference result of an in-range op as a slice of V (3D).  grid_of: ordinal -> grid index for
    irregular files (None = identity)."""
    nI, nX, nZ = V.shape
    name, a = op[0], op[1]
    if name == 'read_volume':
        return V
    if name == 'read_inline':
        return V[a[0]]
    if name == 'read_crossline':
        return V[:, a[0]]
    if name == 'read_zslice':
        return V[:, :, a[0]]
    if name == 'read_subvolume':
        return V[a[0]:a[1], a[2]:a[3], a[4]:a[5]]
    if name == 'get_trace':
        g = a[0] if grid_of is None else grid_of[a[0]]
        t = V[g // nX, g % nX]
        if len(a) > 1:
            lo = 0 if a[1] is None else a[1]
            hi = nZ if a[2] is None else a[2]
            t = t[lo:hi]
        return t
    if name in ('read_correlated_diagonal', 'read_anticorrelated_diagonal'):
        d = a[0]
        if name == 'read_correlated_diagonal':
            full = np.array([V[i, i - d] for i in range(nI) if 0 <= i - d < nX])
        else:
            full = np.array([V[i, d - i] for i in range(nI) if 0 <= d - i < nX])
        # (a bound given on its own is a window too: the other end is the end of the diagonal / of the trace)
        lo = a[1] if len(a) > 1 and a[1] is not None else 0
        hi = a[2] if len(a) > 2 and a[2] is not None else len(full)
        zlo = a[3] if len(a) > 3 and a[3] is not None else 0
        zhi = a[4] if len(a) > 4 and a[4] is not None else full.shape[1]
        return full[lo:hi, zlo:zhi]
    raise KeyError(name)


def expected_2d(V, op):
    name, a = op[0], op[1]
    if name == 'get_trace':
        return V[a[0]] if len(a) < 2 else V[a[0], (a[1] or 0):] if len(a) < 3 else V[a[0], (a[1] or 0):a[2]]
    if name == 'read_subplane':
        return V[a[0]:a[1], a[2]:a[3]]
    raise KeyError(name)


def numpy_args(op, rng):
    """The same op with its integer arguments given as NumPy integers of a randomly chosen dtype that holds the value (narrow and unsigned
    ones included): an ordinal is an ordinal whatever integer type carries it.  The expectation is computed from the plain op."""
    def conv(v):
        if isinstance(v, bool) or not isinstance(v, int):
            return v
        ok = [d for d in (np.int8, np.uint8, np.int16, np.uint16, np.int32, np.uint32, np.int64) if np.iinfo(d).min <= v <= np.iinfo(d).max]
        return rng.choice(ok)(v)
    return (op[0], op[1], {'_call': tuple(conv(v) for v in op[1])})


def check_ops(reader, ops, expect, tag='', between=None):
    """Run ops on reader, compare with expect(op).  Returns (mismatches, n_compared).  between(): called before every op (what the
    caller of the library does in between, e.g. with a handle it shares with the reader)."""
    bad, n = [], 0
    kept = []          # the last results themselves: they must still be right after the reads that follow (a caller keeps what it was given)
    for op in ops:
        exp = expect(op)
        if between is not None:
            between()
        try:
            got = getattr(reader, op[0])(*(op[2]['_call'] if len(op) > 2 and '_call' in op[2] else op[1]))
        except Exception as e:  # noqa
            bad.append({'sig': '%s%s:raised-%s' % (tag, op[0], type(e).__name__), 'detail': '%s%s -> %r' % (op[0], op[1], e)})
            n += 1
            continue
        n += 1
        d = same(got, exp)
        if d:
            kind = 'shape' if d.startswith('shape') else 'value'
            bad.append({'sig': '%s%s:%s-mismatch' % (tag, op[0], kind), 'detail': '%s%s: %s' % (op[0], op[1], d)})
        else:
            for op_k, got_k, exp_k in kept:
                if same(got_k, exp_k):
                    bad.append({'sig': '%s%s:result-changed-after-a-later-read' % (tag, op_k[0]),
                                'detail': 'the array returned by %s%s was right when returned and differs after %s%s' % (op_k[0], op_k[1], op[0], op[1])})
                    kept = []
                    break
            if isinstance(got, np.ndarray):
                kept = (kept + [(op, got, exp)])[-3:]
    return bad, n

"""Controlled scheduler for the writer pipeline (C16): the REAL producer / compressor / writer threads run,
but exactly one of them at a time, and only between instrumented operations (queue put/get/task_done/join,
thread start, file write).  Enabledness is evaluated on the real queue objects while every thread is parked."""
import hashlib
import queue as _queue
import threading
import time as _time

_real_sleep = _time.sleep


class Unwind(BaseException):
    """Raised inside a parked thread to end an execution (deadlock or end of run)."""


class _T:
    __slots__ = ('name', 'tid', 'enabled', 'label', 'waiting', 'done', 'ops', 'last')

    def __init__(self, name, tid):
        self.name, self.tid = name, tid
        self.enabled = lambda: True
        self.label = 'begin'
        self.waiting = False
        self.done = False
        self.ops = 0
        self.last = 0


def _h(x):
    try:
        b = x.tobytes() if hasattr(x, 'tobytes') else bytes(x)
    except Exception:  # noqa
        b = repr(x).encode()
    return hashlib.blake2b(b, digest_size=6).hexdigest()


class Sched:
    def __init__(self, chooser, capacity=None):
        self.cv = threading.Condition()
        self.chooser = chooser
        self.capacity = capacity
        self.threads = {}
        self.running = None
        self.unwind = False
        self.deadlock = False
        self.manual = False
        self.trace = []
        self.queues = []
        self.put_hook = None
        self.requested_maxsize = []      # the capacity the library itself asked for at each Queue(...)
        self.created = []
        self.fhash = '0'
        self.nwrites = 0
        self.writes_after_return = []
        self.returned = False
        self.timeouts_fired = 0
        self.peeks = 0
        self.sleeps = 0
        self._tl = threading.local()
        self.timed_waits = 0
        self.main_tid = threading.get_ident()
        t = _T('main', self.main_tid)
        self.threads[self.main_tid] = t
        self.running = self.main_tid

    # -- called by instrumented operations ---------------------------------------------------
    def yield_(self, enabled, label):
        tid = threading.get_ident()
        me = self.threads.get(tid)
        if me is None:
            return
        with self.cv:
            me.enabled, me.label, me.waiting = enabled, label, True
            if self.running == tid:
                self.running = None
            if not self.manual:
                self._dispatch()
            else:
                self.cv.notify_all()
            while self.running != tid and not self.unwind:
                self.cv.wait()
            if self.unwind:
                raise Unwind()
            me.waiting = False
            if not label.startswith(('sleep', 'peek')):
                me.ops += 1          # (polling - sleeping, looking at a queue - changes nothing: the abstract state must not grow with it)

    def register_child(self, name):
        tid = threading.get_ident()
        with self.cv:
            t = _T(name, tid)
            t.waiting = True
            self.threads[tid] = t
            self.cv.notify_all()
            while self.running != tid and not self.unwind:
                self.cv.wait()
            if self.unwind:
                raise Unwind()
            t.waiting = False
            t.ops += 1

    def finish_child(self):
        tid = threading.get_ident()
        with self.cv:
            # re-key the finished thread: the OS may hand its identifier to the next thread that is started
            t = self.threads.pop(tid)
            self.threads[('finished', len(self.threads), tid)] = t
            t.done, t.waiting = True, False
            if self.running == tid:
                self.running = None
            if not self.manual and not self.unwind:
                self._dispatch()
            else:
                self.cv.notify_all()

    def wait_child_registered(self, n_before):
        with self.cv:
            while len(self.threads) <= n_before:
                self.cv.wait()

    def note_got(self, item):
        t = self.threads.get(threading.get_ident())
        if t is not None:
            t.last = _h(item)

    def note_write(self, data):
        self.fhash = hashlib.blake2b((self.fhash + _h(data)).encode(), digest_size=6).hexdigest()
        self.nwrites += 1
        if self.returned:
            self.writes_after_return.append((threading.current_thread().name, len(data)))

    # -- scheduling ---------------------------------------------------------------------------
    def abstract_state(self):
        ts = tuple(sorted((t.name, t.ops, t.label, t.last, t.done) for t in self.threads.values()))
        qs = tuple((tuple(_h(x) for x in list(q.queue)), q.__dict__.get('_vz_unfinished', 0)) for q in self.queues)
        return hash((ts, qs, self.fhash, self.nwrites))

    def _is_enabled(self, t):
        """enabledness predicates are evaluated by the scheduler (whatever thread runs it): not an observation by the program"""
        self._tl.evaluating = True
        try:
            return bool(t.enabled())
        finally:
            self._tl.evaluating = False

    def evaluating(self):
        return getattr(self._tl, 'evaluating', False)

    def _dispatch(self):
        live = [t for t in self.threads.values() if not t.done]
        if not live or any(not t.waiting for t in live):
            return
        en = sorted([t for t in live if self._is_enabled(t)], key=lambda t: t.name)
        if not en:
            self.deadlock = True
            self.blocked = [(t.name, t.label) for t in live]
            self.unwind = True
            self.cv.notify_all()
            return
        t = self.chooser(en, self)
        self.trace.append((t.name, t.label))
        self.running = t.tid
        self.cv.notify_all()

    def after_return(self, max_steps=50):
        """run() has returned in the main thread: let the daemon threads take every step they can
        (bounded); any file write now is a write after the call returned.  Then unwind them."""
        with self.cv:
            self.returned = True
            self.manual = True
            main = self.threads[self.main_tid]
            main.done = True
            self.running = None
            steps = 0
            while steps < max_steps:
                live = [t for t in self.threads.values() if not t.done]
                while any(not t.waiting for t in live):
                    self.cv.wait(0.5)
                    live = [t for t in self.threads.values() if not t.done]
                en = sorted([t for t in live if self._is_enabled(t)], key=lambda t: t.name)
                if not en:
                    break
                t = en[0]
                self.trace.append((t.name, t.label + '@after-return'))
                self.running = t.tid
                steps += 1
                self.cv.notify_all()
                while self.running is not None:
                    self.cv.wait(0.5)
            self.post_steps = steps
            self.unwind = True
            self.cv.notify_all()

    def abort(self):
        with self.cv:
            self.unwind = True
            self.cv.notify_all()


def instrument(S):
    """Returns (QueueClass, ThreadClass) bound to scheduler S."""
    RealQueue, RealThread, RealCondition = _queue.Queue, threading.Thread, threading.Condition

    def _timed(a, k):
        """(block, timeout) of a put/get call -> True when the call may return without the queue changing state:
        non-blocking, or blocking with a finite timeout.  Under the scheduler time is virtual: a schedule in which the
        other threads are not run for longer than the timeout is a schedule like any other, so a timed operation whose
        condition does not hold when it is scheduled times out at once."""
        block = k.get('block', a[0] if len(a) > 0 else True)
        timeout = k.get('timeout', a[1] if len(a) > 1 else None)
        return (not block) or timeout is not None

    class ICond(RealCondition):
        """The queue's own conditions.  The instrumented put/get/join never reach a wait (they run only when enabled);
        a wait that is reached comes from code that uses the conditions directly, and is a scheduling point."""

        def __init__(self, lock=None):
            super().__init__(lock)
            self._vz_gen = 0

        def notify(self, n=1):
            self._vz_gen += 1
            return RealCondition.notify(self, n)

        def notify_all(self):
            self._vz_gen += 1
            return RealCondition.notify_all(self)

        def _vz_wait(self, enabled, label):
            self.release()
            try:
                S.timed_waits += 1
                S.yield_(enabled, label)
            finally:
                self.acquire()

        def wait(self, timeout=None):
            if threading.get_ident() not in S.threads:
                return RealCondition.wait(self, timeout)
            gen = self._vz_gen
            self._vz_wait(lambda: timeout is not None or self._vz_gen != gen, 'cond_wait')
            return self._vz_gen != gen

        def wait_for(self, predicate, timeout=None):
            if threading.get_ident() not in S.threads:
                return RealCondition.wait_for(self, predicate, timeout)
            if not predicate():
                self._vz_wait(lambda: timeout is not None or bool(predicate()), 'cond_wait_for')
            return predicate()

    tl = threading.local()

    def _inside():
        return getattr(tl, 'depth', 0) > 0

    class _Real:
        """marks the dynamic extent of a call into the real Queue implementation (its own attribute reads are not observations)"""
        def __enter__(self):
            tl.depth = getattr(tl, 'depth', 0) + 1

        def __exit__(self, *a):
            tl.depth -= 1

    class IQueue(RealQueue):
        def __init__(self, maxsize=0):
            with _Real():
                super().__init__(S.capacity if S.capacity is not None else maxsize)
            self.not_empty, self.not_full, self.all_tasks_done = ICond(self.mutex), ICond(self.mutex), ICond(self.mutex)
            self._vz_idx = len(S.queues)
            S.queues.append(self)
            S.requested_maxsize.append(maxsize)

        # code that looks at the queue's state directly (polling instead of join()) does so at a scheduling point
        def _peek(self, what):
            # (not while the looking thread holds the queue's own lock: parking it there would block every other thread for real)
            if not _inside() and not S.evaluating() and not self.mutex.locked() and threading.get_ident() in S.threads:
                S.peeks += 1
                S.yield_(lambda: True, 'peek:%d:%s' % (self._vz_idx, what))

        @property
        def unfinished_tasks(self):
            self._peek('unfinished')
            return self.__dict__.get('_vz_unfinished', 0)

        @unfinished_tasks.setter
        def unfinished_tasks(self, v):
            self.__dict__['_vz_unfinished'] = v

        def qsize(self):
            self._peek('qsize')
            with _Real():
                return RealQueue.qsize(self)

        def empty(self):
            self._peek('empty')
            with _Real():
                return RealQueue.empty(self)

        def full(self):
            self._peek('full')
            with _Real():
                return RealQueue.full(self)

        def put(self, item, *a, **k):
            timed = _timed(a, k)
            S.yield_(lambda: timed or self.maxsize <= 0 or self._n() < self.maxsize, 'put')
            if S.put_hook is not None:
                S.put_hook(self._vz_idx)          # (fault injection: the producer's source fails while it is about to hand over a plane set)
            if timed and 0 < self.maxsize <= self._n():
                S.timeouts_fired += 1
                raise _queue.Full
            with _Real():
                return RealQueue.put(self, item)

        def get(self, *a, **k):
            timed = _timed(a, k)
            S.yield_(lambda: timed or self._n() > 0, 'get')
            if timed and self._n() == 0:
                S.timeouts_fired += 1
                raise _queue.Empty
            with _Real():
                item = RealQueue.get(self)
            S.note_got(item)
            return item

        def _n(self):
            return len(self.queue)

        def put_nowait(self, item):
            return self.put(item, block=False)

        def get_nowait(self):
            return self.get(block=False)

        def task_done(self):
            S.yield_(lambda: True, 'task_done')
            with _Real():
                return RealQueue.task_done(self)

        def join(self):
            S.yield_(lambda: self.__dict__.get('_vz_unfinished', 0) == 0, 'join')
            with _Real():
                return RealQueue.join(self)

    class IThread(RealThread):
        def __init__(self, group=None, target=None, name=None, args=(), kwargs=None, **kw):
            nm = getattr(target, '__name__', 'thread')
            idx = S.created.count(nm)
            S.created.append(nm)
            label = nm if idx == 0 else '%s#%d' % (nm, idx + 1)

            self._vz_done = False

            def wrapped(*a, **k):
                try:
                    S.register_child(label)
                    target(*a, **k)
                except Unwind:
                    pass
                finally:
                    self._vz_done = True
                    try:
                        S.finish_child()
                    except Exception:  # noqa
                        pass
            super().__init__(group=group, target=wrapped, name=label, args=args, kwargs=kwargs or {}, **kw)

        def start(self):
            S.yield_(lambda: True, 'thread_start')
            n = len(S.threads)
            RealThread.start(self)
            S.wait_child_registered(n)

        def join(self, timeout=None):
            # waiting for another thread to end is a blocking point like any other: enabled once that thread has finished (a timed join is
            # always enabled and times out at once when it has not, as the timed queue operations do)
            if threading.get_ident() in S.threads and not S.evaluating():
                if timeout is None:
                    S.yield_(lambda: self._vz_done, 'thread_join')
                else:
                    S.timed_waits += 1
                    S.yield_(lambda: True, 'thread_join_timed')
                    if not self._vz_done:
                        S.timeouts_fired += 1
                        return None
            return RealThread.join(self, timeout)

    def vsleep(seconds):
        """time.sleep under the scheduler: no real time passes, the caller merely lets the others run (or not)"""
        if threading.get_ident() in S.threads and not S.evaluating():
            S.sleeps += 1
            S.yield_(lambda: True, 'sleep')
        else:
            _real_sleep(seconds)
    S.vsleep = vsleep
    return IQueue, IThread

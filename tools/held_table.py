#!/venv/bin/python
"""Regenerates the table of DESIGN.md 8.3 from evidence/*.json (what each quick check observed on its last run against /repo).
usage: tools/held_table.py            (rewrites the block between the HELD-TABLE markers in DESIGN.md)"""
import json, os, re
ROOT = os.path.dirname(os.path.dirname(os.path.abspath(__file__)))
PICK = {  # counters worth a line, per check (all counters stay in the evidence files)
    'C01': ['conversions', 'cells_compared', 'files_decoded'], 'C02': ['reads_compared', 'slow_worker_seeks', 'injected_yields'],
    'C03': ['files_checked', 'versions_enumerated', 'scm_strings'], 'C04': ['headers_compared', 'compared'], 'C05': ['sources'],
    'C06': ['exports', 'traces_compared'], 'C07': ['calls_checked', 'os_level_calls', 'immediate_repeats'], 'C08': ['compared', 'surveys'],
    'C09': ['compared', 'reads'], 'C10': ['crops', 'invalid_judged'], 'C11': ['pairs_compared'], 'C12': ['reblocks', 'compared', 'slow_worker_seeks'],
    'C13': ['expressions'], 'C14': ['oob_calls'], 'C15': ['ops_compared', 'retained_results_rechecked', 'converter_exports', 'cache_hits'],
    'C16': ['executions', 'abstract_states', 'distinct_schedules', 'write_faults_injected', 'producer_faults_injected', 'dfs_complete'],
    'C17': ['injections', 'order_runs', 'inflight_max_max', 'injected_yields', 'blob_vs_local_compared', 'optimised_runs'],
    'C18': ['crash_states', 'reads', 'raised', 'same', 'reblocks_of_partial_refused'], 'C19': ['valid_settings', 'invalid_settings', 'access_path_reads_compared'],
    'C20': ['conversions', 'perturbations']}
rows = []
for i in range(1, 21):
    pid = 'C%02d' % i
    p = os.path.join(ROOT, 'evidence', pid + '.json')
    if not os.path.exists(p):
        continue
    e = json.load(open(p))
    c = e['coverage']
    mc = c.get('monitor_counters', {})
    obs = ', '.join('%s %s' % (k.replace('_', ' '), mc[k]) for k in PICK.get(pid, []) if k in mc) or ', '.join('%s %s' % (k.replace('_', ' '), v) for k, v in list(mc.items())[:4] if isinstance(v, (int, float)))
    rows.append('| %s | %d (%d distinct non-trivial) | %s; %d strata | %s | %.0f s |' % (pid, c['evaluations'], c['distinct_nontrivial'], obs, len(c.get('strata_hit', [])), c.get('verdict', '?'), e['wall_s']))
seed = e['seed']
tbl = '| Check | cases | monitor counters (excerpt) | verdict | wall |\n|---|---|---|---|---|\n' + '\n'.join(rows)
d = os.path.join(ROOT, 'DESIGN.md')
s = open(d).read()
block = '<!-- HELD-TABLE-BEGIN -->\n%s\n<!-- HELD-TABLE-END -->' % tbl
if '<!-- HELD-TABLE-BEGIN -->' in s:
    s = re.sub(r'<!-- HELD-TABLE-BEGIN -->.*?<!-- HELD-TABLE-END -->', lambda m: block, s, flags=re.S)
else:
    raise SystemExit('markers missing')
open(d, 'w').write(s)
print(tbl)

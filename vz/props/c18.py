"""C18 partial files: crash states materialised from the recorded write log of a real writer run; every read
method on every state must raise or return exactly what the complete file returns."""
import hashlib
import os
import random

import numpy as np

from .. import conv, env, files, gen, monitors, oracles, reads

ID, TITLE, LEVEL = 'C18', 'partial files', 'fault_enumeration'
RULE = ('case = one writer run (SEG-Y 3D x detection mode incl. thorough with its in-place patches, NumPy, irregular, 2D, reduced-I/O, '
        'cropper, re-blocker) executed on a recording open(): the raw write log (what reached the OS, in order, across the main handle '
        'and the r+b patch handles) and the Python-level write log give the crash states: EVERY prefix of each log, cuts inside EVERY '
        'write at {1 byte, middle, length-1}, and truncations of the finished file at all multiples of 512 and 4096 +-1 (capped), every '
        'footer-array boundary +-1 and seeded random lengths. Each state is opened and ~15-25 read calls (volume, slices first/middle/'
        'last, sub-volume, traces, headers, every stored tracefield array; 2D equivalents) are compared with the complete file: raise '
        'or identical. Native-boundary contracts watch every codec call. distinct = distinct crash-state contents; non-trivial = '
        'state differs from the complete file')
ASSUMPTIONS = ['a crash leaves a prefix of the recorded write sequence (writes are not reordered by the OS); torn writes are modelled by the cuts',
               'get_source_data_hash is metadata and excluded, as the property states reads of samples and headers']
CASE_TIMEOUT = {'quick': 1200, 'thorough': 7200}


def worker_init(ctx):
    ctx['zfpy_proxy'] = monitors.install_native_contracts(enforce=True)


def cases(tier, seed):
    rng = random.Random('C18/%s' % seed)
    out = []
    base = [('segy', 'heuristic'), ('segy', 'thorough'), ('segy', 'exhaustive'), ('segy-iops', 'heuristic'), ('numpy', None), ('irregular', 'thorough'),
            ('2d', 'heuristic'), ('2d', 'thorough'), ('crop', None), ('reblock', None), ('segy-zslice', 'thorough'), ('segy-general', 'heuristic'),
            ('segy-2bit', 'strip'), ('segy-overwrite', 'heuristic')]
    reps = 1 if tier == 'quick' else 5
    for rep in range(reps):
        for kind, det in base:
            out.append({'id': '%s:%s:%d' % (kind, det, rep), 'kind': kind, 'detection': det, 'wseed': rng.randrange(1 << 30),
                        'nrand': 60 if tier == 'quick' else 200, 'cap512': 60 if tier == 'quick' else 400, 'cost': 5})
    if tier == 'thorough':
        out.append({'id': 'memcheck:truncated', 'kind': 'memcheck', 'workload': 'truncated', 'cost': 60})
    return out


def do_write(case, sc, rec):
    """Run the writer under the recording open; returns output path."""
    import seismic_zfp.conversion as C
    import seismic_zfp.cropping as CR
    rng = random.Random(case['wseed'])
    kind, det = case['kind'], case['detection']
    out = sc.file('full.sgz')
    rec.only = out
    hdr = {'seed': rng.randrange(1 << 20), 'nfields': rng.randint(2, 4), 'inside': True}
    pre = None
    if kind in ('segy', 'segy-iops', 'segy-zslice', 'segy-general', 'segy-2bit', 'segy-overwrite'):
        shape = (rng.choice([5, 9]), rng.choice([6, 7]), rng.choice([9, 30])) if kind != 'segy-2bit' else (12, 8, 40)
        src = conv.build_source(conv.src_desc(rng, '3d', shape, hdr=hdr, valkind='smooth', fmt=5), sc)
        rate, bs = {'segy': (4, (4, 4, -1)), 'segy-iops': (8, (4, 4, -1)), 'segy-zslice': (2, (64, 64, 4)), 'segy-general': (8, (8, 8, -1)),
                    'segy-2bit': (2, (4, 4, -1)), 'segy-overwrite': (4, (4, 4, -1))}[kind]
        if kind == 'segy-overwrite':
            # the output path already holds a finished file of the same layout made from ANOTHER survey (a conversion is re-run onto its old output)
            other = conv.build_source(conv.src_desc(rng, '3d', shape, hdr=dict(hdr, seed=hdr['seed'] + 1), valkind='noise', fmt=5), sc, name='other.sgy')
            conv.convert_segy(other['path'], out, rate, bs, detection=det)
        job = lambda: conv.convert_segy(src['path'], out, rate, bs, reduce_iops=kind == 'segy-iops', detection=det)   # noqa
    elif kind == 'numpy':
        D = gen.cube((6, 9, 20), 3)
        job = lambda: conv.convert_numpy(D, out, 4, (4, 4, -1))   # noqa
    elif kind == 'irregular':
        nI, nX = 6, 7
        src = conv.build_source(conv.src_desc(rng, 'irregular', (nI, nX, 12), hdr=hdr, valkind='smooth', fmt=5, holes=[3, 8, 20, 40], il=[5, 1], xl=[10, 2]), sc)
        job = lambda: conv.convert_segy(src['path'], out, 4, (4, 4, -1), detection=det)   # noqa
    elif kind == '2d':
        src = conv.build_source(conv.src_desc(rng, '2d', (rng.choice([21, 40]), 30), hdr=hdr, valkind='smooth', fmt=5, how2d='nonumbers'), sc)
        job = lambda: conv.convert_segy(src['path'], out, 8, (1, 16, -1), detection=det)   # noqa
    else:
        pre = sc.file('pre.sgz')
        d = files.wspec_desc(rng, (9, 10, 40) if kind == 'crop' else (9, 70, 9), 4 if kind == 'crop' else 2, (4, 4, 512) if kind == 'crop' else (4, 4, 1024),
                             narr=3, version=[0, 2, 9], il=[1, 1], xl=[5, 2])
        pre, _ = files.build(d, sc, name='pre.sgz')
        if kind == 'crop':
            def job():
                with env.quiet():
                    with CR.SgzCropper(pre) as c:
                        c.write_cropped_file_by_indexes(out, (2, 9), (1, 8), None)
        else:
            def job():
                with env.quiet():
                    with C.SgzConverter(pre) as c:
                        c.convert_to_adv_sgz(out)
    C.open = rec
    CR.open = rec
    try:
        job()
    finally:
        del C.open
        del CR.open
    return out


def read_ops(r):
    if r.is_2d:
        nT, nZ = r.tracecount, r.n_samples
        ops = [('read_subplane', (0, nT, 0, nZ)), ('get_trace', (0,)), ('get_trace', (nT - 1,)), ('get_trace', (nT // 2,)), ('read_subplane', (1, nT - 1, 1, nZ - 1)),
               ('gen_trace_header', (0,)), ('gen_trace_header', (nT - 1,))]
    else:
        nI, nX, nZ = r.n_ilines, r.n_xlines, r.n_samples
        ops = [('read_volume', ())]
        for n, m in ((nI, 'read_inline'), (nX, 'read_crossline'), (nZ, 'read_zslice')):
            ops += [(m, (0,)), (m, (n // 2,)), (m, (n - 1,))]
        ops += [('read_subvolume', (1, nI, 1, nX - 1, 2, nZ)), ('get_trace', (0,)), ('get_trace', (r.tracecount - 1,)), ('gen_trace_header', (0,)),
                ('gen_trace_header', (r.tracecount - 1,)), ('gen_trace_header', (r.tracecount // 2,), {'load_all_headers': True}),
                ('read_correlated_diagonal', (0,))]
    for k in sorted(set(int(k) for k in r.stored_header_keys))[:6]:
        ops.append(('get_tracefield_values', (k,)))
    return ops



def run_memcheck_case(case):
    """thorough tier: the named bounded workload under valgrind memcheck, contracts off; only errors with a frame in libzfp/zfpy count."""
    import os
    from .. import memcheck
    pin = os.environ.get('PYTHONPATH', '').split(os.pathsep)[0]
    r = memcheck.run_workload(case['workload'], pin)
    bad = []
    if not r.get('done'):
        return {'inconclusive': 'memcheck workload %s did not finish: rc=%s %s %s' % (case['workload'], r.get('rc'), r.get('stdout_tail'), r.get('stderr_tail')),
                'counters': {'memcheck_runs': 1}}
    for e in r['errors_in_codec'][:5]:
        bad.append({'sig': 'memcheck:%s-in-codec' % e['kind'], 'detail': '%s: %s; frames %s' % (case['workload'], e['what'], e['frames'])})
    if 'ACCEPTED-SUBMINIMUM' in r.get('stdout_tail', ''):
        bad.append({'sig': 'memcheck:sub-minimum-rate-accepted', 'detail': r['stdout_tail']})
    return {'violations': bad, 'counters': {'memcheck_runs': 1, 'memcheck_errors_total_any_frame': r['errors_total'], 'memcheck_errors_in_codec': len(r['errors_in_codec'])},
            'strata': ['memcheck:' + case['workload']], 'key': case['id']}


def run_case(case, ctx):
    if case.get('kind') == 'memcheck':
        return run_memcheck_case(case)
    from seismic_zfp.read import SgzReader
    sc = ctx['scratch']
    rng = random.Random(case['wseed'] + 1)
    rec = monitors.RecordingOpen()
    full = do_write(case, sc, rec)
    F = open(full, 'rb').read()
    if rec.replay_prefix(len(rec.raw)) != F:
        return {'inconclusive': 'replaying the recorded raw write log does not reproduce the finished file (%d raw writes)' % len(rec.raw)}
    with SgzReader(full) as r:
        ops = read_ops(r)
        truth = {}
        for op in ops:
            truth[repr(op)] = reads.run_op(r, op)
            if truth[repr(op)][0] != 'ok':
                return {'inconclusive': 'complete file: %s does not return' % (op,)}
    sp = oracles.Spec(full)
    # a partial file handed to another writer of the package (the re-blocker reads it and writes a new file): what it writes must not read
    # back as data either
    adv_truth = None
    if case['kind'] == 'segy-2bit':
        from seismic_zfp.conversion import SgzConverter
        adv = sc.file('adv-full.sgz')
        with env.quiet():
            with SgzConverter(full) as c:
                c.convert_to_adv_sgz(adv)
        with SgzReader(adv) as r:
            adv_truth = {repr(op): reads.run_op(r, op) for op in ops}
    # ---- crash states
    states = {}

    def add(content, label):
        h = hashlib.sha1(content).digest()
        if content != F and h not in states:
            states[h] = (content, label)
    for k in range(len(rec.raw) + 1):
        add(rec.replay_prefix(k), 'raw-prefix:%d/%d' % (k, len(rec.raw)))
        if k >= 1:
            n = len(rec.raw[k - 1][2])
            for cut in sorted({1, n // 2, n - 1}):
                if 0 < cut < n:
                    add(rec.replay_prefix(k, cut), 'raw-prefix:%d cut %d/%d' % (k, cut, n))
    for k in range(len(rec.pydata) + 1):
        add(rec.replay_py_prefix(k), 'py-prefix:%d/%d' % (k, len(rec.pydata)))
        if k >= 1:
            n = len(rec.pydata[k - 1][2])
            for cut in sorted({1, n // 2, n - 1}):
                if 0 < cut < n:
                    add(rec.replay_py_prefix(k, cut), 'py-prefix:%d cut %d/%d' % (k, cut, n))
    L = len(F)
    lens = set()
    m512 = list(range(0, L + 1, 512))
    if len(m512) > case['cap512']:
        m512 = sorted(set(rng.sample(m512, case['cap512'])) | {x for x in m512 if x >= sp.footer0 - 4096} | set(range(0, min(L, 3 * 4096) + 1, 512)))
    for x in m512:
        lens.update([x - 1, x, x + 1])
    for j in range(len(sp.stored) + 1):
        b = sp.footer0 + j * sp.stride
        lens.update([b - 1, b, b + 1, b + sp.hlen - 1, b + sp.hlen, b + sp.hlen + 1])
    lens.update(rng.randrange(L) for _ in range(case['nrand']))
    for x in sorted(lens):
        if 0 <= x < L:
            add(F[:x], 'truncate:%d/%d' % (x, L))
    # ---- judge
    bad, counters = [], {'crash_states': 0, 'reads': 0, 'raised': 0, 'same': 0, 'open_failed': 0, 'raw_writes': len(rec.raw), 'py_writes': len(rec.pydata),
                         'patch_handles': len(rec.handles) - 1}
    part = sc.file('part.sgz')
    kinds = set()
    for content, label in states.values():
        counters['crash_states'] += 1
        kinds.add(label.split(':')[0])
        with open(part, 'wb') as f:
            f.write(content)
        # every third crash state is also read as a partial *blob* (a range that straddles the end of the object is served short)
        variants = [(False, 'local'), (True, 'local')] + ([(False, 'blob')] if counters['crash_states'] % 3 == 0 else [])
        for preload, backend in variants:
            try:
                r = SgzReader(part if backend == 'local' else monitors.FakeBlob(part), preload=preload)
                if backend == 'blob':
                    counters['blob_states'] = counters.get('blob_states', 0) + 1
            except monitors.ContractBreach as e:
                bad.append({'sig': 'partial:open:short-buffer-handed-to-codec', 'detail': '%s: %s' % (label, e)})
                continue
            except Exception:  # noqa
                counters['open_failed'] += 1
                continue
            tag = 'preload:' if preload else 'blob:' if backend == 'blob' else ''
            try:
                for op in (ops if not preload else [o for o in ops if not o[0].startswith(('gen_trace', 'get_tracefield'))]):
                    counters['reads'] += 1
                    try:
                        got = reads.run_op(r, op)
                    except monitors.ContractBreach as e:
                        bad.append({'sig': 'partial:%s%s:short-buffer-handed-to-codec' % (tag, op[0]),
                                    'detail': '%s (%d bytes of %d): %s' % (label, len(content), L, e)})
                        continue
                    if got[0] == 'exc':
                        counters['raised'] += 1
                    elif got == truth[repr(op)]:
                        counters['same'] += 1
                    else:
                        bad.append({'sig': 'partial:%s%s:returns-data-differing-from-complete-file' % (tag, op[0]),
                                    'detail': '%s%s on crash state %s (%d bytes of %d; data section ends at %d)'
                                              % (op[0], op[1:], label, len(content), L, sp.footer0)})
            finally:
                try:
                    r.close()
                except Exception:  # noqa
                    pass
        if adv_truth is not None and counters['crash_states'] % 2 == 0:
            adv_part = sc.file('adv-part.sgz')
            if os.path.exists(adv_part):
                os.remove(adv_part)
            try:
                with env.quiet():
                    with SgzConverter(part) as c:
                        c.convert_to_adv_sgz(adv_part)
                counters['reblocks_of_partial_returned'] = counters.get('reblocks_of_partial_returned', 0) + 1
            except monitors.ContractBreach as e:
                bad.append({'sig': 'partial:reblock:short-buffer-handed-to-codec', 'detail': '%s: %s' % (label, e)})
                adv_part = None
            except Exception:  # noqa
                counters['reblocks_of_partial_refused'] = counters.get('reblocks_of_partial_refused', 0) + 1
                adv_part = None
            if adv_part is not None:
                try:
                    with SgzReader(adv_part) as r2:
                        for op in ops:
                            got = reads.run_op(r2, op)
                            counters['reads'] += 1
                            if got[0] != 'exc' and got != adv_truth[repr(op)]:
                                bad.append({'sig': 'partial:reblock:%s:returns-data-differing-from-complete-file' % op[0],
                                            'detail': 're-blocking crash state %s (%d bytes of %d) returned normally; %s%s of its output differs from the re-blocked complete file'
                                                      % (label, len(content), L, op[0], op[1:])})
                                break
                except monitors.ContractBreach as e:
                    bad.append({'sig': 'partial:reblock:short-buffer-handed-to-codec', 'detail': '%s: %s' % (label, e)})
                except Exception:  # noqa
                    pass
        if len(bad) > 20:
            break
    counters['contract_evaluations'] = ctx['zfpy_proxy'].n_decompress
    # dedupe violation list by signature (keep first witness of each)
    seen, uniq = set(), []
    for v in bad:
        if v['sig'] not in seen:
            seen.add(v['sig'])
            uniq.append(v)
    return {'violations': uniq, 'counters': counters, 'strata': ['writer:' + case['kind'], 'detection:%s' % case['detection']] + ['states:' + k for k in kinds],
            'key': case['id'], 'nontrivial': counters['crash_states'] > 10,
            'summary': {'id': case['id'], 'file_bytes': L, 'raw_writes': len(rec.raw), 'py_writes': len(rec.pydata), 'handles': rec.handles and len(rec.handles),
                        'crash_states': counters['crash_states'], 'reads': counters['reads'], 'raised': counters['raised'], 'same_as_complete': counters['same']}}


def sample_view(case, res):
    return (res or {}).get('summary', {'id': case['id']})


def finalize(tier, cases, results, counters, strata):
    reasons = []
    need = ['writer:segy', 'writer:numpy', 'writer:irregular', 'writer:2d', 'writer:crop', 'writer:reblock', 'writer:segy-2bit', 'writer:segy-overwrite', 'detection:thorough', 'detection:heuristic',
            'states:raw-prefix', 'states:py-prefix', 'states:truncate']
    for s in need:
        if s not in strata:
            reasons.append('required stratum not hit: ' + s)
    if counters.get('crash_states', 0) == 0:
        reasons.append('no crash state materialised')
    if counters.get('patch_handles', 0) == 0:
        reasons.append('no in-place patch handle recorded')
    if counters.get('blob_states', 0) == 0:
        reasons.append('no crash state read through the blob backend')
    return {'distinct_crash_states': counters.get('crash_states', 0)}, reasons

"""Bounded workloads executed under valgrind memcheck (thorough tiers of C17, C18, C19).  Contracts are OFF here:
the point is to let the real native calls happen and have memcheck watch them."""
import os
import sys

import numpy as np


def w_boundary_rates():
    """C19: conversions + read-back at the lowest valid rates (3D 1/4 and 1/2, 2D 1) and the highest (32)."""
    from . import conv, env, gen, oracles
    from seismic_zfp.read import SgzReader
    sc = env.Scratch()
    try:
        D = gen.cube((5, 6, 7), 3)
        for rate, bs in [(0.25, (4, 4, -1)), (0.5, (4, 4, -1)), (0.25, (64, 32, 64)), (32, (4, 4, -1)), (32, (16, 16, 4))]:
            out = sc.file('o.sgz')
            conv.convert_numpy(D, out, rate, bs)
            with SgzReader(out) as r:
                V = r.read_volume()
                r.read_inline(1), r.read_crossline(2), r.read_zslice(3), r.get_trace(4)
            assert V.tobytes() == oracles.image(D, rate).tobytes()
        T = gen.cube((7, 9), 3)
        sgy = sc.file('s.sgy')
        gen.make_segy_traces(sgy, list(T), [{1: t + 1} for t in range(7)], fmt=5)
        for rate, bs in [(1, (1, 4, -1)), (1, (1, 256, 128)), (32, (1, 4, -1))]:
            out = sc.file('o2.sgz')
            conv.convert_segy(sgy, out, rate, bs)
            with SgzReader(out) as r:
                r.read_subplane(0, 7, 0, 9), r.get_trace(6)
        # below the codec minimum: must be refused before any native call
        for rate, bs, two_d in [(0.125, (4, 4, -1), False), (0.5, (1, 4, -1), True), (0.25, (1, 16, -1), True)]:
            try:
                if two_d:
                    conv.convert_segy(sgy, sc.file('bad.sgz'), rate, bs)
                else:
                    conv.convert_numpy(D, sc.file('bad.sgz'), rate, bs)
                print('ACCEPTED-SUBMINIMUM %s %s' % (rate, bs))
            except Exception:  # noqa
                pass
    finally:
        sc.cleanup()


def w_truncated():
    """C18: every read method on truncations of a finished file (data section cut, footer cut)."""
    from . import env, files, reads
    from seismic_zfp.read import SgzReader
    import random
    sc = env.Scratch()
    try:
        rng = random.Random(1)
        for rate, bs in [(4, (4, 4, 512)), (2, (64, 64, 4)), (8, (8, 8, 64)), (0.5, (4, 4, 4096))]:
            d = files.wspec_desc(rng, (6, 7, 9), rate, bs, narr=2, version=[0, 2, 9])
            path, _ = files.build(d, sc)
            F = open(path, 'rb').read()
            for cut in [8192 + 100, 8192 + 4096 + 17, len(F) - 600, len(F) - 1, 8192 + 2048]:
                p = sc.file('t.sgz')
                open(p, 'wb').write(F[:cut])
                try:
                    r = SgzReader(p)
                except Exception:  # noqa
                    continue
                for op in [('read_volume', ()), ('read_inline', (5,)), ('read_crossline', (6,)), ('read_zslice', (8,)), ('get_trace', (41,)),
                           ('read_subvolume', (1, 6, 1, 7, 1, 9)), ('gen_trace_header', (41,)), ('get_tracefield_values', (189,))]:
                    reads.run_op(r, op)
                r.close()
    finally:
        sc.cleanup()


def w_faults():
    """C17: reads with short / empty range reads injected at every position (local and blob)."""
    from . import env, files, monitors, reads
    from seismic_zfp.read import SgzReader
    import random
    sc = env.Scratch()
    try:
        rng = random.Random(2)
        for rate, bs in [(4, (4, 4, 512)), (2, (64, 64, 4)), (8, (8, 8, 64))]:
            d = files.wspec_desc(rng, (6, 7, 9), rate, bs, narr=2, version=[0, 2, 9])
            path, _ = files.build(d, sc)
            for op in [('read_inline', (5,)), ('read_crossline', (6,)), ('read_zslice', (8,)), ('get_trace', (41,)), ('read_subvolume', (1, 6, 1, 7, 1, 9))]:
                for backend in ('local', 'blob'):
                    for k in range(3):
                        for kind in ('half', 'minus1', 'empty'):
                            h = monitors.MonFile(path) if backend == 'local' else monitors.FakeBlob(path)
                            r = SgzReader(h)
                            h.faults = {len(h.log) + k: kind}
                            reads.run_op(r, op)
                            try:
                                r.loader.clear_cache()
                            except Exception:  # noqa
                                pass
    finally:
        sc.cleanup()


WORKLOADS = {'boundary-rates': w_boundary_rates, 'truncated': w_truncated, 'faults': w_faults}

if __name__ == '__main__':
    import warnings
    warnings.filterwarnings('ignore')
    from . import env
    with env.quiet():
        WORKLOADS[sys.argv[1]]()
    print('WORKLOAD-DONE')

#!/venv/bin/python
"""Run the repository's pinned suite (hooks off) and compare with BASELINE.json stable_pass."""
import json, subprocess, sys, tempfile, os, xml.etree.ElementTree as ET
repo = sys.argv[1] if len(sys.argv) > 1 else '/repo'
base = json.load(open('/root/.vp/BASELINE.json'))
with tempfile.TemporaryDirectory() as d:
    x = os.path.join(d, 'j.xml')
    env = dict(os.environ); env.pop('EQUINOR_SEISMIC_ZFP_VERIF', None)
    subprocess.run(['/venv/bin/python', '-m', 'pytest', '-q', '-p', 'no:cacheprovider', '--timeout=900',
                    '--continue-on-collection-errors', '--junitxml=' + x], cwd=repo, env=env,
                   stdout=subprocess.DEVNULL, stderr=subprocess.DEVNULL)
    passed = set()
    for tc in ET.parse(x).getroot().iter('testcase'):
        if not any(c.tag in ('failure', 'error', 'skipped') for c in tc):
            passed.add('%s::%s' % (tc.get('classname'), tc.get('name')))
missing = [t for t in base['stable_pass'] if t not in passed]
print('passed %d; baseline %d; baseline tests not passing: %s' % (len(passed), len(base['stable_pass']), missing))
sys.exit(1 if missing else 0)

"""C07 I/O proportionality: observed (offset, length) range reads of every call vs the set of disk
blocks the O-SPEC block map says the request needs."""
import os
import random

import numpy as np

from .. import env, files, monitors, oracles, reads

ID, TITLE, LEVEL = 'C07', 'I/O proportionality', 'exploration'
RULE = ('case = one SGZ file x backend {counting local file, fake blob client} x preload {off,on}; every read '
        'method is called cold (fresh reader) and warm (one reader, twice) and the logged range reads are checked: '
        'bytes inside needed blocks only, no byte twice within a call, cold reads touch exactly the needed blocks, '
        'open touches only header blocks, header regeneration = one 4-byte read per stored array, preload = data '
        'section once; identical request multiset on both backends. distinct = (layout, rate, shape, kind); '
        'non-trivial = file has >= 2 blocks on some axis and >= 30 calls were checked')
ASSUMPTIONS = ['the counting file object and the fake blob client see every storage access (all go through '
               'file.read_range / seek+read on the handle passed to SgzReader)']


def _clear(r):
    """drop the loader's class-level caches between observed calls (best effort: internal API)"""
    try:
        r.loader.clear_cache()
    except Exception:  # noqa
        pass


def cases(tier, seed):
    rng = random.Random('C07/%s' % seed)
    out = []
    for rel in files.fixtures():
        if 'padding/' in rel and rng.random() < (0.7 if tier == 'quick' else 0.0):
            continue
        out.append({'id': 'fix:' + rel, 'file': {'kind': 'fixture', 'rel': rel}, 'nops': 40, 'cost': 2})
    reps = 2 if tier == 'quick' else 8
    cap = 800_000 if tier == 'quick' else 5_000_000
    for rep in range(reps):
        for fam, lays in files.LAYOUTS_3D.items():
            for rate, bs in lays:
                shape = files.small_shape_for(bs, rng, blocks=(2, 3), cap=cap)
                d = files.wspec_desc(rng, shape, rate, bs, narr=rng.choice([1, 2, 3, 5]))
                out.append({'id': 'w3:%s:%s:%s:%d' % (fam, rate, 'x'.join(map(str, bs)), rep), 'file': d,
                            'nops': 40 if tier == 'quick' else 120, 'cost': 3})
        for rate, bs in files.LAYOUTS_2D:
            nT = rng.choice([bs[1] + 1, 2 * bs[1] + 3, 3 * bs[1]])
            nZ = rng.choice([bs[2] + 1, 2 * bs[2] + 1]) if bs[2] <= 1024 else rng.choice([50, 301])
            d = files.wspec_desc(rng, (max(2, nT), nZ), rate, bs, version=[0, 2, 9], narr=rng.choice([1, 2]))
            out.append({'id': 'w2:%s:%s:%d' % (rate, 'x'.join(map(str, bs)), rep), 'file': d, 'nops': 30, 'cost': 1})
        for rate, bs in [(4, (4, 4, 512)), (8, (8, 8, 64))]:
            nI, nX = rng.randint(5, 10), rng.randint(5, 10)
            holes = sorted(rng.sample(range(1, nI * nX), rng.randint(1, 8)))
            d = files.wspec_desc(rng, (nI, nX, rng.randint(5, 40)), rate, bs, version=[0, 2, 9], holes=holes,
                                 il=[rng.choice([1, 5]), 1], narr=3)
            out.append({'id': 'wi:%s:%s:%d' % (rate, 'x'.join(map(str, bs)), rep), 'file': d, 'nops': 30, 'cost': 1})
    # a file of a few megabytes for the OS-level monitor (what the process reads from the operating system must scale with the call, not with the file)
    out.append({'id': 'w3:oslevel', 'file': files.wspec_desc(rng, (96, 100, 300), 4, (4, 4, 512), narr=1, version=[0, 2, 9], valkind='smooth'), 'nops': 24, 'cost': 6})
    # wider cubes: the number of 4x4 trace columns a diagonal crosses (5, 9, 10, 17, 20 here) decides how many chunks the reader must hold
    for j, (nI, nX) in enumerate([(19, 18), (36, 37), (40, 43), (68, 66), (17, 80)] if tier == 'quick' else [(19, 18), (36, 37), (40, 43), (68, 66), (17, 80), (85, 88), (33, 35), (20, 20)]):
        d = files.wspec_desc(rng, (nI, nX, rng.choice([5, 9])), 8, (4, 4, 256), narr=1, version=[0, 2, 9])
        out.append({'id': 'w3:wide:%dx%d' % (nI, nX), 'file': d, 'nops': 24, 'cost': 3, 'wide': True})
    return out


def op_boxes(op, sp, gm):
    """Request box(es) of an in-range op (3D: ((il),(xl),(z)); 2D: ((trace),(z)))."""
    name, a = op[0], op[1]
    if sp.is2d:
        nT, nZ = sp.shape
        if name == 'get_trace':
            return [((a[0], a[0] + 1), (0, nZ) if len(a) < 3 else (a[1], a[2]))]
        if name == 'read_subplane':
            return [((a[0], a[1]), (a[2], a[3]))]
        return []
    nI, nX, nZ = sp.shape
    if name == 'read_volume':
        return [((0, nI), (0, nX), (0, nZ))]
    if name in ('read_inline',):
        return [((a[0], a[0] + 1), (0, nX), (0, nZ))]
    if name == 'read_crossline':
        return [((0, nI), (a[0], a[0] + 1), (0, nZ))]
    if name == 'read_zslice':
        return [((0, nI), (0, nX), (a[0], a[0] + 1))]
    if name == 'read_subvolume':
        return [((a[0], a[1]), (a[2], a[3]), (a[4], a[5]))]
    if name == 'get_trace':
        g = a[0] if gm is None else int(gm[a[0]])
        z = (0, nZ) if len(a) < 3 else (a[1], a[2])
        return [((g // nX, g // nX + 1), (g % nX, g % nX + 1), z)]
    if name in ('read_correlated_diagonal', 'read_anticorrelated_diagonal'):
        d = a[0]
        if name == 'read_correlated_diagonal':
            pos = [(i, i - d) for i in range(nI) if 0 <= i - d < nX]
        else:
            pos = [(i, d - i) for i in range(nI) if 0 <= d - i < nX]
        # (a bound given on its own is a window too: the other end is the end of the diagonal / of the trace)
        lo_ = a[1] if len(a) > 1 and a[1] is not None else 0
        hi_ = a[2] if len(a) > 2 and a[2] is not None else len(pos)
        pos = pos[lo_:hi_]
        z = (a[3] if len(a) > 3 and a[3] is not None else 0, a[4] if len(a) > 4 and a[4] is not None else nZ)
        return [((i, i + 1), (x, x + 1), z) for i, x in pos]
    return []


def analyse(log, sp, needed, cold, label, op, preloaded=False, extra_ok=(), check_dup=True):
    """log: [(offset, requested, returned)].  Returns violations."""
    bad = []
    data_lo, data_hi = sp.data0, sp.footer0
    touched = set()
    ivs = []
    for off, n, got in log:
        if n is None or n < 0:
            bad.append({'sig': '%s:unbounded-read' % label, 'detail': '%s read(%s) at %d' % (op, n, off)})
            continue
        ivs.append((off, off + n))
        if off + n <= data_lo and off >= 0:
            bad.append({'sig': '%s:header-block-refetched' % label, 'detail': '%s read (%d,%d)' % (op, off, n)})
        elif off >= data_hi:
            if not any(lo <= off and off + n <= hi for lo, hi in extra_ok):
                bad.append({'sig': '%s:footer-bytes-fetched' % label,
                            'detail': '%s read (%d,%d) outside data section; allowed %s' % (op, off, n, list(extra_ok)[:4])})
        elif off < data_lo or off + n > data_hi:
            bad.append({'sig': '%s:read-straddles-data-section' % label,
                        'detail': '%s read (%d,%d); data section [%d,%d)' % (op, off, n, data_lo, data_hi)})
        else:
            if preloaded:
                bad.append({'sig': '%s:data-fetched-after-preload' % label, 'detail': '%s read (%d,%d)' % (op, off, n)})
            for b in range((off - data_lo) // 4096, (off + n - 1 - data_lo) // 4096 + 1):
                touched.add(b)
    ivs.sort()
    for (a0, a1), (b0, b1) in zip(ivs, ivs[1:]):
        if check_dup and b0 < a1:
            bad.append({'sig': '%s:byte-fetched-twice' % label,
                        'detail': '%s reads [%d,%d) and [%d,%d) overlap' % (op, a0, a1, b0, b1)})
            break
    if touched - needed:
        bad.append({'sig': '%s:unneeded-block-fetched' % label,
                    'detail': '%s touched %d block(s) not holding requested samples, e.g. %s; needed %d'
                              % (op, len(touched - needed), sorted(touched - needed)[:5], len(needed))})
    if cold and not preloaded and needed - touched:
        bad.append({'sig': '%s:needed-block-not-fetched-cold' % label,
                    'detail': '%s skipped %d needed block(s) on a cold reader' % (op, len(needed - touched))})
    return bad


def run_case(case, ctx):
    from seismic_zfp.read import SgzReader
    rng = ctx['rng']
    path, truth = files.build(case['file'], ctx['scratch'])
    sp = oracles.Spec(path)
    gm = None
    if not sp.is2d and sp.ntr != sp.grid_traces:
        gm = np.flatnonzero(sp.mask())
    regular = sp.is2d or gm is None
    if sp.is2d:
        ops = reads.ops_2d(sp.shape[0], sp.shape[1], sp.bs, rng, case['nops'])
    else:
        ops = reads.ops_3d(sp.shape, sp.bs, rng, case['nops'], tracecount=sp.ntr)
    arr_ranges = [(sp.footer0 + j * sp.stride, sp.footer0 + j * sp.stride + sp.hlen) for j in range(len(sp.stored))]
    hdr_ops = []
    strata_extra = set()
    for _ in range(4):
        hdr_ops.append(('gen_trace_header', (rng.randrange(sp.ntr),)))
    if truth.get('dups') and regular and not sp.is2d:
        # a trace at which an array shared by several fields holds 0 / a non-zero value
        a73 = np.asarray(truth['arrays'][73])
        for sel in (np.flatnonzero(a73 == 0), np.flatnonzero(a73 != 0)):
            if len(sel):
                hdr_ops.append(('gen_trace_header', (int(sel[rng.randrange(len(sel))]),)))
                strata_extra.add('shared-array-value:%s' % ('zero' if a73[sel[0]] == 0 else 'nonzero'))
    for k in sp.stored[:3]:
        hdr_ops.append(('get_tracefield_values', (k,)))
    bad, ncalls = [], 0
    multisets = {}
    counters = {'range_reads': 0, 'cache_hits': 0}
    strata = {'layout:' + ('2d' if sp.is2d else 'default' if sp.bs[:2] == (4, 4) else 'zslice' if sp.bs[2] == 4
                           else 'general'), 'rate:%s' % sp.rate}
    if gm is not None:
        strata.add('irregular')
    strata |= strata_extra

    nopen = [0]

    def open_reader(backend, preload):
        if backend == 'local':
            h = monitors.MonFile(path)
        else:
            h = monitors.FakeBlob(path)
        # the writers of the package are readers too (subclasses with the same constructor arguments): same costs
        import zlib
        from seismic_zfp.conversion import SgzConverter
        from seismic_zfp.cropping import SgzCropper
        cls = [SgzReader, SgzReader, SgzConverter, SgzCropper][(zlib.crc32(case['id'].encode()) + nopen[0]) % 4]
        nopen[0] += 1
        strata.add('reader-class:' + cls.__name__)
        r = cls(h, preload=preload)
        return h, r

    def expected_extra(op):
        name, a = op[0], op[1]
        if name == 'gen_trace_header':
            if regular and not sp.is2d:
                return [(lo + 4 * a[0], lo + 4 * a[0] + 4) for lo, hi in arr_ranges], True
            if sp.is2d:
                return arr_ranges, False          # 2D: structured flag is False -> arrays are loaded
            return arr_ranges, False
        if name == 'get_tracefield_values':
            j = sp.stored.index(a[0])
            return [arr_ranges[j]], True
        if gm is not None and name == 'get_trace':
            return [arr_ranges[sp.stored.index(189)]] if 189 in sp.stored else [], False
        return [], True

    for backend in ('local', 'blob'):
        for preload in (False, True):
            label_b = backend
            # ---- open
            h, r = open_reader(backend, preload)
            log = list(h.log)
            counters['range_reads'] += len(log)
            opn = [x for x in log if not (preload and x[0] == sp.data0)]
            for off, n, got in opn:
                if off + n > sp.data0:
                    bad.append({'sig': 'open:reads-beyond-header-blocks', 'detail': '(%d,%d) at open, header is %d bytes'
                                % (off, n, sp.data0)})
            if preload:
                pre = [x for x in log if x[0] >= sp.data0]
                if [(x[0], x[1]) for x in pre] != [(sp.data0, sp.footer0 - sp.data0)]:
                    bad.append({'sig': 'preload:data-section-not-fetched-exactly-once',
                                'detail': 'preload reads %s; data section (%d,%d)' % (pre[:4], sp.data0, sp.footer0 - sp.data0)})
                strata.add('preload')
            multisets[(backend, preload, 'open')] = sorted((x[0], x[1]) for x in log)
            r.close() if backend == 'local' else _clear(r)
            # ---- cold: fresh reader per op
            for op in ops[: max(8, len(ops) // 2)] + hdr_ops:
                h, r = open_reader(backend, preload)
                mark = len(h.log)
                try:
                    getattr(r, op[0])(*op[1])
                except Exception as e:  # noqa  (value/exception correctness is C02's business)
                    counters['op_raised'] = counters.get('op_raised', 0) + 1
                    _clear(r)
                    continue
                log = h.log[mark:]
                counters['range_reads'] += len(log)
                ncalls += 1
                needed = set()
                for box in op_boxes(op, sp, gm):
                    needed |= sp.blocks_for_box(box)
                extra, exact = expected_extra(op)
                # "no byte twice" is stated for sample reads and for header regeneration of regular files
                dup = not (op[0] in ('gen_trace_header', 'get_tracefield_values') and gm is not None)
                b = analyse(log, sp, needed, True, op[0], op, preloaded=preload, extra_ok=extra, check_dup=dup)
                if exact and op[0] in ('gen_trace_header', 'get_tracefield_values'):
                    got_extra = sorted((x[0], x[0] + x[1]) for x in log if x[0] >= sp.footer0)
                    if got_extra != sorted(extra):
                        b.append({'sig': '%s:footer-reads-not-minimal' % op[0],
                                  'detail': '%s%s read %s; expected exactly %s' % (op[0], op[1], got_extra[:6], sorted(extra)[:6])})
                bad += b
                multisets.setdefault((backend, preload, 'cold'), []).append(sorted((x[0], x[1]) for x in log))
                _clear(r)
                if backend == 'local':
                    h.close()
            # ---- warm: one reader, the op list twice
            h, r = open_reader(backend, preload)
            for rep in range(2):
                for op in ops:
                    mark = len(h.log)
                    try:
                        getattr(r, op[0])(*op[1])
                    except Exception:  # noqa
                        continue
                    log = h.log[mark:]
                    counters['range_reads'] += len(log)
                    ncalls += 1
                    needed = set()
                    for box in op_boxes(op, sp, gm):
                        needed |= sp.blocks_for_box(box)
                    extra, _ = expected_extra(op)
                    bad += analyse(log, sp, needed, False, op[0], op, preloaded=preload, extra_ok=extra)
                    if rep == 1 and not log and needed:
                        counters['cache_hits'] += 1
            try:
                counters['chunk_cache_hits'] = counters.get('chunk_cache_hits', 0) + r._read_containing_chunk_cached.cache_info().hits
            except Exception:  # noqa
                pass
            _clear(r)
            if backend == 'local':
                h.close()
            strata.add('backend:' + backend)
    # ---- immediate repeats: what a reader has just decoded it holds (one-slot caches per loader method; the chunk cache is sized to hold
    # an arbitrary diagonal): the same call again, or a neighbour of the same unit of four reached through another API (ordinal / line
    # number / coordinate), fetches nothing
    if not sp.is2d:
        nI, nX, nZ = sp.shape
        il_, xl_ = sp.ilines(), sp.xlines()
        default_layout = tuple(sp.bs[:2]) == (4, 4)
        rep_ops = []
        for op in ops:
            if op[0] in ('read_inline', 'read_crossline', 'read_zslice', 'get_trace', 'read_correlated_diagonal', 'read_anticorrelated_diagonal', 'read_subvolume') \
                    and op[0] not in [o[0][0] for o in rep_ops]:
                rep_ops.append((op, op))
        # the longest diagonals (a diagonal is read chunk by chunk through the reader's chunk cache)
        for dop in (('read_correlated_diagonal', (0,)), ('read_anticorrelated_diagonal', (min(nI, nX) - 1,)), ('read_correlated_diagonal', (min(1, nI - 1),))):
            rep_ops.append((dop, dop))
        if default_layout and gm is None:
            i, x, z = rng.randrange(nI), rng.randrange(nX), rng.randrange(nZ)
            i2, x2, z2 = min(nI - 1, i // 4 * 4 + (i + 1) % 4), min(nX - 1, x // 4 * 4 + (x + 1) % 4), min(nZ - 1, z // 4 * 4 + (z + 1) % 4)
            with_r = SgzReader(path)
            zc = float(with_r.zslices[z])
            with_r.close()
            rep_ops += [(('read_inline_number', (int(il_[i]),)), ('read_inline', (i2,))), (('read_inline', (i,)), ('read_inline_number', (int(il_[i2]),))),
                        (('read_crossline_number', (int(xl_[x]),)), ('read_crossline', (x2,))), (('read_zslice_coord', (zc,)), ('read_zslice', (z2,)))]
        for backend in ('local', 'blob'):
            for first, second in rep_ops:
                h, r = open_reader(backend, False)
                try:
                    getattr(r, first[0])(*first[1])
                    mark = len(h.log)
                    getattr(r, second[0])(*second[1])
                except Exception:  # noqa
                    _clear(r)
                    continue
                again = [x_ for x_ in h.log[mark:] if sp.data0 <= x_[0] < sp.footer0]
                counters['immediate_repeats'] = counters.get('immediate_repeats', 0) + 1
                if again:
                    bad.append({'sig': '%s:refetched-what-the-reader-just-decoded' % second[0],
                                'detail': '%s%s right after %s%s on the same reader fetched %d range(s) of the data section again, e.g. %s'
                                          % (second[0], second[1], first[0], first[1], len(again), again[:2])})
                _clear(r)
                if backend == 'local':
                    h.close()
    # ---- irregular files: the population mask (the stored inline-number array) is metadata a sample read may need once per reader;
    # a reader that has it must not fetch it again for later sample reads, whatever header reads happened in between
    if gm is not None and 189 in sp.stored:
        j = sp.stored.index(189)
        mlo, mhi = arr_ranges[j]
        for backend in ('local', 'blob'):
            h, r = open_reader(backend, False)
            seq = [('get_trace', (0,)), ('gen_trace_header', (sp.ntr - 1,)), ('get_tracefield_values', (sp.stored[0],)), ('get_trace', (sp.ntr - 1,)),
                   ('gen_trace_header', (0,)), ('get_trace', (sp.ntr // 2,)), ('read_inline', (0,)), ('get_trace', (1,))]
            fetched_by_sample_reads = 0
            for op in seq:
                mark = len(h.log)
                try:
                    getattr(r, op[0])(*op[1])
                except Exception:  # noqa
                    continue
                if op[0] in ('get_trace', 'read_inline'):
                    fetched_by_sample_reads += sum(1 for off, n, got in h.log[mark:] if off < mhi and off + n > mlo)
            counters['mask_sequences'] = counters.get('mask_sequences', 0) + 1
            if fetched_by_sample_reads > 1:
                bad.append({'sig': 'get_trace:population-mask-refetched', 'detail': 'sample reads of one reader fetched the inline-number array [%d,%d) %d times (sequence %s)'
                            % (mlo, mhi, fetched_by_sample_reads, [o[0] for o in seq])})
            _clear(r)
            if backend == 'local':
                h.close()
    # ---- compound calls through the segyio-style accessors: one subscript = several line / slice / trace reads.  The blocks of the
    # union box are all that may be fetched; in the default layout lines and z-slices come in groups of four decoded by one fetch, and
    # consecutive traces share their chunk, so no byte is fetched twice within the subscript either
    if not sp.is2d and gm is None:
        import seismic_zfp
        nI, nX, nZ = sp.shape
        il, xl = [int(v) for v in sp.ilines()], [int(v) for v in sp.xlines()]
        default_layout = tuple(sp.bs[:2]) == (4, 4)

        def rng_pair(n):
            a = rng.randrange(n)
            return a, rng.randrange(a + 1, min(n, a + 9) + 1)
        comp = []
        for _ in range(3):
            a, b = rng_pair(nI)
            st = il[1] - il[0] if nI > 1 else 1
            comp.append(('iline[%d:%d:%d]' % (il[a], il[b - 1] + st, st), lambda f, a=a, b=b, st=st: f.iline[il[a]:il[b - 1] + st:st], ((a, b), (0, nX), (0, nZ))))
            a, b = rng_pair(nX)
            st = xl[1] - xl[0] if nX > 1 else 1
            comp.append(('xline[%d:%d:%d]' % (xl[a], xl[b - 1] + st, st), lambda f, a=a, b=b, st=st: f.xline[xl[a]:xl[b - 1] + st:st], ((0, nI), (a, b), (0, nZ))))
            a, b = rng_pair(nZ)
            comp.append(('depth_slice[%d:%d]' % (a, b), lambda f, a=a, b=b: f.depth_slice[a:b], ((0, nI), (0, nX), (a, b))))
        a, b = rng_pair(nI * nX)
        tr_boxes = [((t // nX, t // nX + 1), (t % nX, t % nX + 1), (0, nZ)) for t in range(a, b)]
        for backend in ('local', 'blob'):
            for label, fn, box in comp + [('trace[%d:%d]' % (a, b), lambda f: f.trace[a:b], None)]:
                h = monitors.MonFile(path) if backend == 'local' else monitors.FakeBlob(path)
                f = seismic_zfp.open(h)
                mark = len(h.log)
                try:
                    [np.asarray(v) for v in fn(f)]
                except Exception:  # noqa  (value / exception correctness is C02's and C13's business)
                    continue
                log = h.log[mark:]
                counters['range_reads'] += len(log)
                counters['compound_calls'] = counters.get('compound_calls', 0) + 1
                needed = set()
                for bx in ([box] if box is not None else tr_boxes):
                    needed |= sp.blocks_for_box(bx)
                name = 'emulator.' + label.split('[')[0] + '[slice]'
                bad += analyse(log, sp, needed, True, name, (label,), check_dup=default_layout)
                for acc in (f.iline, f.xline, f.depth_slice, f.trace, f.header, f.subvolume, f):
                    _clear(acc)
                if backend == 'local':
                    h.close()
        strata.add('compound-calls')
    for preload in (False, True):
        for phase in ('open', 'cold'):
            if multisets.get(('local', preload, phase)) != multisets.get(('blob', preload, phase)):
                bad.append({'sig': 'backend:request-multiset-differs', 'detail': 'local vs blob differ in phase %s preload=%s'
                            % (phase, preload)})
    multi_block = any(g >= 2 for g in sp.bgrid)
    # ---- below the file object: a reader the library opens itself from a path.  What the process asks the operating system for
    # (rchar of /proc/self/io) during a cold call must stay within what the same call requests from a counting handle, each request
    # rounded up to one default I/O buffer (the buffered reader's own granularity) - not a multiple of it
    import io as _io

    def rchar():
        with open('/proc/self/io') as f_:
            return int(f_.read().split('rchar:')[1].split()[0])
    if len(sp.raw) >= 150_000 and os.path.exists('/proc/self/io'):
        for op in [o for o in ops if o[0] not in ('read_volume',)][:8]:
            h, r = open_reader('local', False)
            try:
                mark = len(h.log)
                getattr(r, op[0])(*op[1])
                reqs = h.log[mark:]
            except Exception:  # noqa
                reqs = None
            _clear(r)
            h.close()
            if not reqs:
                continue
            r2 = SgzReader(path)
            try:
                a0 = rchar()
                getattr(r2, op[0])(*op[1])
                a1 = rchar()
            finally:
                _clear(r2)
                r2.close()
            bound = sum(max(n_, _io.DEFAULT_BUFFER_SIZE) for _, n_, _g in reqs) + 2 * _io.DEFAULT_BUFFER_SIZE
            counters['os_level_calls'] = counters.get('os_level_calls', 0) + 1
            if a1 - a0 > bound:
                bad.append({'sig': 'os-level:%s:reads-far-beyond-what-the-call-requests' % op[0],
                            'detail': '%s%s on a reader opened by path: the process read %d bytes from the operating system; the call requests %d bytes in %d range(s) (bound with one %d-byte buffer per request: %d)'
                                      % (op[0], op[1], a1 - a0, sum(n_ for _, n_, _g in reqs), len(reqs), _io.DEFAULT_BUFFER_SIZE, bound)})
                break
    return {'violations': bad, 'counters': dict(counters, calls_checked=ncalls), 'strata': sorted(strata),
            'key': '%s|%s|%s|%s' % (case['id'].split(':')[0], sp.rate, sp.bs, sp.shape),
            'nontrivial': multi_block and ncalls >= 30}


def finalize(tier, cases, results, counters, strata):
    reasons = []
    for s in ['layout:default', 'layout:zslice', 'layout:general', 'layout:2d', 'irregular', 'preload', 'reader-class:SgzConverter', 'reader-class:SgzCropper',
              'backend:local', 'backend:blob', 'shared-array-value:zero', 'shared-array-value:nonzero', 'compound-calls']:
        if s not in strata:
            reasons.append('required stratum not hit: ' + s)
    if counters.get('range_reads', 0) == 0:
        reasons.append('the storage monitors saw no range read')
    if counters.get('cache_hits', 0) == 0:
        reasons.append('no warm (cache-hit) call observed')
    return {}, reasons

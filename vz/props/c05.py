"""C05 geometry preservation: axes, counts and flags of the SGZ vs segyio on the source."""
import random

import numpy as np
import segyio

from .. import conv, env, gen, oracles

ID, TITLE, LEVEL = 'C05', 'geometry preservation', 'exploration'
RULE = ('case = one regular source with axis triples (start, step, count) drawn per axis from starts {0, +-1, +-2^20, '
        '+-(2^31 - |step|*count)}, steps {+-1, +-2, +-7, +-1000}, counts 2..40, sample interval from {1, 7, 125, 250, 500, '
        '1000, 1001, 1999, 2000, 3333, 4000, 4001, 12345, 32767, 32768, 65535} us (the last two are stored as negative 16-bit values, the reference being what segyio reports) and start time from {0, +-1, +-100, -32768, 32767} ms, '
        'through the SEG-Y or the NumPy route, or a ZGY file written through pyzgy (float sample start / increment, reference = pyzgy on the file); reader and emulator axes/counts/flags compared with segyio on the source '
        '(integers exact, len(zslices) exact, samples within 1e-6 relative); a third of the cases re-check after crop, '
        're-block or export. distinct = (axis classes, interval, start, route, follow-up); non-trivial = every case')
ASSUMPTIONS = ['segyio reports the true geometry of the generated SEG-Y (O-SRC)']
INTERVALS = [1, 7, 125, 250, 500, 1000, 1001, 1999, 2000, 3333, 4000, 4001, 12345, 32767, 32768, 65535]
ZGY_DZ = [4.0, 2.0, 0.5, 0.25, 2.5, 0.125, 1.001, 3.333, 12.345, 0.001, 10.0 / 3.0, 1.0 / 3.0, 0.0625 + 1e-7]
ZGY_Z0 = [0.0, 100.0, -12.0, 8.5, -100.25, 0.001]
T0S = [0, 1, -1, 100, -100, -32768, 32767]
STEPS = [1, -1, 2, -2, 7, -7, 1000, -1000]


def axis_triple(rng, big_ok=True, span=False):
    count = rng.choice([2, 3, 4, 5, 7, 8, 9, 16, 17, rng.randint(2, 40)])
    if span:
        # the axis spans (almost) the whole 32-bit range: first and last line number more than 2^31 apart
        step = (2 ** 32 - 16) // count * rng.choice([1, -1])
        start = -(2 ** 31) + 3 if step > 0 else 2 ** 31 - 3
        return start, step, count, 'span'
    step = rng.choice(STEPS)
    kind = rng.choice(['0', '+1', '-1', '+2^20', '-2^20', 'max', 'min'])
    if kind == 'max':
        start = (2 ** 31 - 1 - abs(step) * count) if step > 0 else (2 ** 31 - 1)
    elif kind == 'min':
        start = -(2 ** 31) if step > 0 else (-(2 ** 31) + abs(step) * count)
    else:
        start = {'0': 0, '+1': 1, '-1': -1, '+2^20': 2 ** 20, '-2^20': -(2 ** 20)}[kind]
    return start, step, count, kind


def cases(tier, seed):
    rng = random.Random('C05/%s' % seed)
    out = []
    n = 400 if tier == 'quick' else 3000
    for i in range(n):
        il, xl = axis_triple(rng, span=i % 10 == 3), axis_triple(rng, span=i % 10 == 7)
        while il[2] * xl[2] > 700:
            xl = axis_triple(rng)
        dt = INTERVALS[i % len(INTERVALS)]
        t0 = T0S[(i // len(INTERVALS)) % len(T0S)] if i < len(INTERVALS) * len(T0S) else rng.choice(T0S)
        nz = rng.choice([2, 3, 5, 9, 50, 257])
        route = 'segy' if i % 4 else 'numpy'
        follow = rng.choice([None, None, 'crop', 'reblock', 'export', 'window'])
        rate_ = 2 if follow == 'reblock' else rng.choice([4, 8, 1])
        if route == 'segy' and i % 12 == 5 and (128 * dt) % 1000 == 0 and abs(t0 + 128 * dt // 1000) < 32000:
            # a crop in the sample direction starting at a later sample block, then export: the exported axis starts where the crop starts
            follow, nz, rate_ = 'crop-z-export', 300, 16
        out.append({'id': 'g:%d' % i, 'il': il[:3], 'xl': xl[:3], 'ilk': il[3], 'xlk': xl[3], 'dt': dt, 't0': t0, 'nz': nz, 'route': route,
                    'follow': follow, 'fmt': rng.choice([1, 5]), 'rate': rate_, 'cost': 1})
    # 2D lines: sample axis and trace count (no line axes)
    for j in range(n // 8):
        out.append({'id': '2d:%d' % j, 'route': 'segy2d', 'nT': rng.choice([2, 5, 16, 17, 40]), 'nz': rng.choice([2, 3, 5, 9, 50]), 'dt': INTERVALS[j % len(INTERVALS)],
                    't0': T0S[(j // len(INTERVALS)) % len(T0S)] if j < len(INTERVALS) * len(T0S) else rng.choice(T0S), 'fmt': rng.choice([1, 5]),
                    'how2d': ['nonumbers', 'single-inline', 'single-crossline'][j % 3], 'rate': rng.choice([4, 8, 1]), 'follow': rng.choice([None, 'export']),
                    'il': [1, 1, 1], 'xl': [1, 1, 1], 'ilk': '0', 'xlk': '0', 'cost': 1})
    # ZGY sources written through pyzgy: float sample axis (start and increment need not be whole ms); line numbers are kept in
    # [0, 2^24] (ZGY annotation is float32) because pyzgy's own accessors cannot address a negative line number
    for j in range(n // 8):
        axes = []
        for _ in range(2):
            count = rng.choice([2, 3, 4, 5, 7, 8, 9, 16, 17])
            step = rng.choice(STEPS)
            kind = rng.choice(['0', '+1', '+2^20', 'max'])
            lo = {'0': 0, '+1': 1, '+2^20': 2 ** 20, 'max': 2 ** 24 - abs(step) * (count + 1)}[kind]   # ZGY stores the annotation as float32: line numbers up to 2^24
            axes.append([lo if step > 0 else lo + abs(step) * (count - 1), step, count, kind])
        il, xl = axes
        follow = rng.choice([None, None, 'crop', 'reblock'])
        out.append({'id': 'zgy:%d' % j, 'il': il[:3], 'xl': xl[:3], 'ilk': il[3], 'xlk': xl[3], 'dt': 0, 't0': 0, 'dz': ZGY_DZ[j % len(ZGY_DZ)],
                    'z0': ZGY_Z0[(j // len(ZGY_DZ)) % len(ZGY_Z0)], 'nz': rng.choice([2, 3, 5, 9, 50]), 'route': 'zgy', 'follow': follow,
                    'fmt': 5, 'rate': 2 if follow == 'reblock' else rng.choice([4, 8, 1]), 'cost': 2})
    return out


def compare(label, r_il, r_xl, r_z, r_n, r_struct, il, xl, zs, ntr, bad):
    if r_il is None or r_xl is None:
        bad.append({'sig': '%s:no-line-axes' % label, 'detail': 'no inline/crossline axes reported (taken for unstructured)'})
        return
    if not (len(r_il) == len(il) and np.array_equal(np.asarray(r_il, dtype=np.int64), np.asarray(il, dtype=np.int64))):
        bad.append({'sig': '%s:inline-axis-differs' % label, 'detail': 'got %s... want %s...' % (np.asarray(r_il)[:4], np.asarray(il)[:4])})
    if not (len(r_xl) == len(xl) and np.array_equal(np.asarray(r_xl, dtype=np.int64), np.asarray(xl, dtype=np.int64))):
        bad.append({'sig': '%s:crossline-axis-differs' % label, 'detail': 'got %s... want %s...' % (np.asarray(r_xl)[:4], np.asarray(xl)[:4])})
    if len(r_z) != len(zs):
        bad.append({'sig': '%s:sample-count-differs' % label, 'detail': 'len(zslices) %d, source has %d samples (interval/start %s)' % (len(r_z), len(zs), zs[:2])})
    else:
        z, w = np.asarray(r_z, dtype=np.float64), np.asarray(zs, dtype=np.float64)
        if not np.all(np.abs(z - w) <= 1e-6 * np.maximum(1.0, np.abs(w))):
            j = int(np.argmax(np.abs(z - w)))
            bad.append({'sig': '%s:sample-axis-differs' % label, 'detail': 'sample %d: %r vs source %r' % (j, z[j], w[j])})
    if r_n is not None and r_n != ntr:
        bad.append({'sig': '%s:tracecount-differs' % label, 'detail': '%s vs %s' % (r_n, ntr)})
    if r_struct is not None and r_struct is not True:
        bad.append({'sig': '%s:structured-flag' % label, 'detail': 'structured=%r for a regular source' % (r_struct,)})


def run_2d(case, ctx):
    import seismic_zfp
    from seismic_zfp.read import SgzReader
    from seismic_zfp.conversion import SgzConverter
    sc = ctx['scratch']
    nT, nZ = case['nT'], case['nz']
    data = gen.cube((nT, nZ), 1)
    sgy, out = sc.file('s.sgy'), sc.file('o.sgz')
    if case['how2d'] == 'nonumbers':
        gen.make_segy_traces(sgy, list(data), [{1: t + 1, 21: 100 + t} for t in range(nT)], dt_us=case['dt'], t0=case['t0'], fmt=case['fmt'])
    elif case['how2d'] == 'single-inline':
        gen.make_segy(sgy, data[None], np.array([7]), 3 + np.arange(nT), dt_us=case['dt'], t0=case['t0'], fmt=case['fmt'])
    else:
        gen.make_segy(sgy, data[:, None], 3 + np.arange(nT), np.array([7]), dt_us=case['dt'], t0=case['t0'], fmt=case['fmt'])
    with segyio.open(sgy, strict=False, ignore_geometry=True) as f:
        s_z, s_n = np.array(f.samples, dtype=np.float64), f.tracecount
    conv.convert_segy(sgy, out, case['rate'], (1, 16, -1), detection='thorough')
    bad = []

    def cmp2d(label, z, n_):
        if len(z) != len(s_z):
            bad.append({'sig': '%s:sample-count-differs' % label, 'detail': '%d vs %d' % (len(z), len(s_z))})
        elif not np.all(np.abs(np.asarray(z, dtype=np.float64) - s_z) <= 1e-6 * np.maximum(1.0, np.abs(s_z))):
            bad.append({'sig': '%s:sample-axis-differs' % label, 'detail': '%s vs source %s' % (np.asarray(z)[:3], s_z[:3])})
        if n_ != s_n:
            bad.append({'sig': '%s:tracecount-differs' % label, 'detail': '%s vs %s' % (n_, s_n)})
    with SgzReader(out) as r:
        cmp2d('2d:reader', r.zslices, r.tracecount)
    with seismic_zfp.open(out) as f:
        cmp2d('2d:emulator', f.samples, f.tracecount)
    if case['follow'] == 'export' and not bad:
        e = sc.file('e.sgy')
        with env.quiet():
            with SgzConverter(out) as cv:
                cv.convert_to_segy(e)
        with segyio.open(e, strict=False, ignore_geometry=True) as f:
            cmp2d('2d:after-export', f.samples, f.tracecount)
    return {'violations': bad, 'counters': {'sources': 1}, 'strata': ['route:segy2d', '2d-dt:%d' % case['dt'], '2d-t0:%d' % case['t0'], '2d-how:' + case['how2d']],
            'key': '2d|%s|%s|%s' % (case['dt'], case['t0'], case['how2d'])}


def run_case(case, ctx):
    if case['route'] == 'segy2d':
        return run_2d(case, ctx)
    import seismic_zfp
    from seismic_zfp.read import SgzReader
    from seismic_zfp.conversion import SgzConverter
    from seismic_zfp.cropping import SgzCropper
    rng = ctx['rng']
    il = case['il'][0] + case['il'][1] * np.arange(case['il'][2])
    xl = case['xl'][0] + case['xl'][1] * np.arange(case['xl'][2])
    nI, nX, nZ = len(il), len(xl), case['nz']
    data = gen.cube((nI, nX, nZ), 1)
    sc = ctx['scratch']
    out = sc.file('o.sgz')
    bad = []
    if case['route'] == 'segy':
        sgy = sc.file('s.sgy')
        gen.make_segy(sgy, data, il, xl, dt_us=case['dt'], t0=case['t0'], fmt=case['fmt'])
        # the interval is recorded in the binary header and in every trace header; they may disagree or one may be empty:
        # the source's sample axis is whatever segyio reports for the file
        ih = [None, None, 'bin-zero', 'bin-differs', 'trace-zero', 'trace-differs'][int(case['id'].split(':')[1]) % 6]
        if ih:
            with segyio.open(sgy, 'r+', strict=False, ignore_geometry=True) as f:
                other = 2 * case['dt'] if 2 * case['dt'] < 32768 else max(1, case['dt'] // 2)
                if ih == 'bin-zero':
                    f.bin[segyio.BinField.Interval] = 0
                elif ih == 'bin-differs':
                    f.bin[segyio.BinField.Interval] = other
                else:
                    for t_ in range(f.tracecount):
                        h_ = f.header[t_]
                        h_[117] = 0 if ih == 'trace-zero' else other
        interval_hdr = ih
        with segyio.open(sgy, strict=False) as f:
            s_il, s_xl, s_z, s_n = np.array(f.ilines), np.array(f.xlines), np.array(f.samples, dtype=np.float64), f.tracecount
        # thorough detection: square cubes whose inline and crossline numbers agree on first and last trace are outside the heuristic's precondition
        conv.convert_segy(sgy, out, case['rate'], (4, 4, -1), detection='thorough')
    elif case['route'] == 'zgy':
        import pyzgy
        zgy = sc.file('s.zgy')
        conv.write_zgy(zgy, data, (case['il'][0], case['il'][1]), (case['xl'][0], case['xl'][1]), case['z0'], case['dz'])
        with env.quiet():
            with pyzgy.open(zgy) as f:
                s_il, s_xl, s_z, s_n = np.array(f.ilines), np.array(f.xlines), np.array(f.samples, dtype=np.float64), f.tracecount
        conv.convert_zgy(zgy, out, case['rate'], (4, 4, -1))
    else:
        s_il, s_xl, s_n = il, xl, nI * nX
        s_z = case['t0'] + (case['dt'] / 1000.0) * np.arange(nZ)
        # the NumPy route takes its line axes as arguments, from inline/crossline header arrays, or both
        how = ['args', 'headers', 'both', 'il-headers-only'][int(case['id'].split(':')[1]) // 4 % 4]
        hd = {}
        if how != 'args' and max(abs(int(il[0])), abs(int(il[-1])), abs(int(xl[0])), abs(int(xl[-1]))) < 2 ** 31:
            hd[189] = np.broadcast_to(il[:, None], (nI, nX)).astype(np.int64)
            if how != 'il-headers-only':
                hd[193] = np.broadcast_to(xl, (nI, nX)).astype(np.int64)
        # ... as arrays of any integer dtype that holds the line numbers (narrow and unsigned ones included)
        dmode = ['int64', 'narrow', 'unsigned'][int(case['id'].split(':')[1]) // 16 % 3]

        def as_dtype(ax):
            lo, hi = int(min(ax)), int(max(ax))
            cands = {'int64': [np.int64], 'narrow': [np.int8, np.int16, np.int32, np.int64],
                     'unsigned': ([np.uint8, np.uint16, np.uint32] if lo >= 0 else []) + [np.int8, np.int16, np.int32, np.int64]}[dmode]
            dt_ = next(d_ for d_ in cands if np.iinfo(d_).min <= lo and hi <= np.iinfo(d_).max)
            return np.asarray(ax).astype(dt_)
        il_a, xl_a = as_dtype(il), as_dtype(xl)
        conv.convert_numpy(data, out, case['rate'], (4, 4, -1), ilines=None if how in ('headers', 'il-headers-only') and hd else il_a,
                           xlines=None if how == 'headers' and hd else xl_a, samples=s_z, trace_headers=hd)
        numpy_how = how if hd else 'args'
        axis_dtypes = 'numpy-axis-dtype:%s:%s' % (il_a.dtype.kind, 'narrow' if il_a.dtype.itemsize < 8 else 'wide')
    with SgzReader(out) as r:
        compare('reader', r.ilines, r.xlines, r.zslices, r.tracecount, r.structured, s_il, s_xl, s_z, s_n, bad)
    with seismic_zfp.open(out) as f:
        compare('emulator', f.ilines, f.xlines, f.samples, f.tracecount, None, s_il, s_xl, s_z, s_n, bad)
        if f.unstructured:
            bad.append({'sig': 'emulator:unstructured-flag', 'detail': 'unstructured=True for a regular source'})
    fol = case['follow']
    if fol and not bad:
        o2 = sc.file('o2.sgz')
        if fol == 'crop':
            a = rng.randrange(nI)
            b = rng.randrange(a + 1, nI + 1)
            c = rng.randrange(nX)
            d = rng.randrange(c + 1, nX + 1)
            def crd(ax, lo, hi):
                stop = ax[hi] if hi < len(ax) else ax[-1] + (ax[-1] - ax[-2] if len(ax) > 1 else 1)
                return (int(ax[lo]), int(stop))
            by_coords = int(case['id'].split(':')[1]) % 2 == 1 and nI >= 2 and nX >= 2
            with env.quiet():
                with SgzCropper(out) as cr:
                    if by_coords:
                        # by line NUMBERS (large ones included: neighbouring numbers differ by far less than any relative tolerance)
                        cr.write_cropped_file_by_coords(o2, crd(s_il, a, b), crd(s_xl, c, d), None)
                    else:
                        cr.write_cropped_file_by_indexes(o2, (a, b), (c, d), None)
            A, B, C, D = a // 4 * 4, min(nI, -(-b // 4) * 4), c // 4 * 4, min(nX, -(-d // 4) * 4)
            with SgzReader(o2) as r:
                compare('after-crop', r.ilines, r.xlines, r.zslices, r.tracecount, r.structured, s_il[A:B], s_xl[C:D], s_z, (B - A) * (D - C), bad)
        elif fol == 'reblock':
            with env.quiet():
                with SgzConverter(out) as cv:
                    cv.convert_to_adv_sgz(o2)
            with SgzReader(o2) as r:
                compare('after-reblock', r.ilines, r.xlines, r.zslices, r.tracecount, r.structured, s_il, s_xl, s_z, s_n, bad)
        elif fol == 'window' and case['route'] == 'segy' and nI >= 2 and nX >= 2:
            # conversion of an ordinal window of the source: axes are the corresponding sub-ranges
            a = rng.randrange(nI - 1)
            b = rng.randrange(a + 2, nI + 1) if a + 2 <= nI else nI
            c = rng.randrange(nX - 1)
            d = rng.randrange(c + 2, nX + 1) if c + 2 <= nX else nX
            if b - a >= 2 and d - c >= 2:
                conv.convert_segy(sgy, o2, case['rate'], (4, 4, -1), detection='thorough', window=(a, b, c, d), reduce_iops=rng.random() < 0.5)
                with SgzReader(o2) as r:
                    compare('windowed', r.ilines, r.xlines, r.zslices, r.tracecount, r.structured, s_il[a:b], s_xl[c:d], s_z, (b - a) * (d - c), bad)
        elif fol == 'crop-z-export' and case['route'] == 'segy':
            with env.quiet():
                with SgzCropper(out) as cr:
                    cr.write_cropped_file_by_indexes(o2, None, None, (128, 256))
            with SgzReader(o2) as r:
                compare('after-z-crop', r.ilines, r.xlines, r.zslices, r.tracecount, r.structured, s_il, s_xl, s_z[128:256], s_n, bad)
            e = sc.file('e.sgy')
            with env.quiet():
                with SgzConverter(o2) as cv:
                    cv.convert_to_segy(e)
            with segyio.open(e, strict=False) as f:
                compare('after-z-crop-and-export', f.ilines, f.xlines, f.samples, f.tracecount, None, s_il, s_xl, s_z[128:256], s_n, bad)
        elif fol == 'export' and case['route'] == 'segy':
            e = sc.file('e.sgy')
            with env.quiet():
                with SgzConverter(out) as cv:
                    cv.convert_to_segy(e)
            with segyio.open(e, strict=False) as f:
                compare('after-export', f.ilines, f.xlines, f.samples, f.tracecount, None, s_il, s_xl, s_z, s_n, bad)
    if case['route'] == 'zgy':
        return {'violations': bad, 'counters': {'sources': 1}, 'strata': ['route:zgy', 'zgy-dz:%s' % case['dz'], 'zgy-z0:%s' % case['z0'], 'zgy-follow:%s' % fol],
                'key': 'zgy|%s|%s|%s|%s|%s|%s' % (case['ilk'], case['il'][1], case['xlk'], case['xl'][1], case['dz'], case['z0'])}
    if case['route'] == 'numpy':
        extra_strata = ['numpy-axes:' + numpy_how, axis_dtypes]
    else:
        extra_strata = ['interval-hdr:%s' % interval_hdr]
    strata = extra_strata + ['route:' + case['route'], 'dt:%d' % case['dt'], 't0:%d' % case['t0'], 'ilstart:' + case['ilk'], 'xlstart:' + case['xlk'],
              'ilstep:%s' % (case['il'][1] if abs(case['il'][1]) <= 1000 else 'huge'), 'xlstep:%s' % (case['xl'][1] if abs(case['xl'][1]) <= 1000 else 'huge'), 'follow:%s' % fol]
    return {'violations': bad, 'counters': {'sources': 1}, 'strata': strata,
            'key': '%s|%s|%s|%s|%s|%s|%s' % (case['ilk'], case['il'][1], case['xlk'], case['xl'][1], case['dt'], case['t0'], case['route'])}


def finalize(tier, cases, results, counters, strata):
    reasons = []
    need = ['dt:%d' % d for d in INTERVALS] + ['t0:%d' % t for t in T0S] + ['ilstep:%d' % s for s in STEPS] + \
           ['ilstart:max', 'ilstart:min', 'xlstart:max', 'xlstart:min', 'ilstart:span', 'xlstart:span', 'route:segy', 'route:numpy', 'route:zgy', 'follow:crop', 'follow:reblock', 'follow:export', 'follow:window', 'follow:crop-z-export', 'interval-hdr:bin-zero', 'interval-hdr:bin-differs', 'interval-hdr:trace-zero', 'interval-hdr:trace-differs', 'numpy-axes:args', 'numpy-axes:headers', 'numpy-axes:both', 'numpy-axes:il-headers-only', 'numpy-axis-dtype:u:narrow', 'numpy-axis-dtype:i:narrow', 'numpy-axis-dtype:i:wide']
    need += ['route:segy2d'] + ['2d-t0:%d' % t for t in T0S[:4]] + ['2d-how:' + h for h in ('nonumbers', 'single-inline', 'single-crossline')]
    need += ['zgy-dz:%s' % d for d in ZGY_DZ] + ['zgy-z0:%s' % z for z in ZGY_Z0[:3]]
    for s in need:
        if s not in strata:
            reasons.append('required stratum not hit: ' + s)
    return {}, reasons

#!/venv/bin/python
"""Confirm a seeded property-breaking change independently and run the checks against it.
usage: tools/eval_mutant.py <srcdir> <k> <PROP> [--all] [--as <n>: keep as seeded/<PROP>-m<n>]     (srcdir holds m<k>.diff, m<k>_demo.py, m<k>_notes.md)
Everything happens on a scratch copy of /repo outside /repo and /verif, removed afterwards."""
import json, os, re, shutil, subprocess, sys, tempfile, time

PY = '/venv/bin/python'
PROPS = ['C%02d' % i for i in range(1, 21)]


def sh(cmd, cwd=None, env=None, timeout=3600):
    p = subprocess.run(cmd, cwd=cwd, env=env, capture_output=True, text=True, timeout=timeout)
    return p.returncode, p.stdout + p.stderr


def main():
    src, k, prop = sys.argv[1], sys.argv[2], sys.argv[3]
    run_all = '--all' in sys.argv
    as_k = sys.argv[sys.argv.index('--as') + 1] if '--as' in sys.argv else k
    diff = os.path.join(src, 'm%s.diff' % k)
    demo = os.path.join(src, 'm%s_demo.py' % k)
    notes = os.path.join(src, 'm%s_notes.md' % k)
    d = tempfile.mkdtemp(prefix='vzseed-')
    meta = {'property': prop, 'source': 'sub-agent given only the property text and its own scratch worktree', 'confirmed': {}}
    try:
        subprocess.run(['rsync', '-a', '--exclude', '.git', '--exclude', 'out', '/repo/', d + '/'], check=True)
        os.makedirs(d + '/out', exist_ok=True)
        shutil.copy(demo, d + '/out/demo.py')
        pin = tempfile.mkdtemp(prefix='vzpin-')
        sys.path.insert(0, '/verif')
        from vz import env as vzenv
        vzenv.make_pin(pin, '0.2.9')
        e = dict(os.environ, PYTHONPATH='%s:%s' % (pin, d), PYTHONWARNINGS='ignore')
        rc, out = sh([PY, 'out/demo.py'], cwd=d, env=e)
        meta['confirmed']['demo_clean_tree_rc'] = rc
        rc, out = sh(['patch', '-p1', '-s', '-i', os.path.abspath(diff)], cwd=d)
        if rc:
            print('PATCH FAILED', out[-500:]); meta['confirmed']['patch'] = 'failed'; print(json.dumps(meta)); return 2
        rc, out = sh([PY, '-m', 'pytest', '-q', '-p', 'no:cacheprovider', '--timeout=900'], cwd=d, env=e)
        m = re.search(r'(\d+) passed', out); f = re.search(r'(\d+) failed', out)
        meta['confirmed']['tests_with_change'] = {'passed': int(m.group(1)) if m else 0, 'failed': int(f.group(1)) if f else 0, 'rc': rc}
        rc, out = sh([PY, 'out/demo.py'], cwd=d, env=e)
        meta['confirmed']['demo_with_change_rc'] = rc
        meta['confirmed']['demo_with_change_tail'] = out[-300:]
        ok = meta['confirmed']['demo_clean_tree_rc'] == 0 and meta['confirmed']['demo_with_change_rc'] != 0 and \
            meta['confirmed']['tests_with_change']['failed'] == 0 and meta['confirmed']['tests_with_change']['passed'] >= 93
        meta['confirmed']['ok'] = ok
        print('confirmed:', json.dumps(meta['confirmed'])[:400])
        if not ok:
            print('NOT CONFIRMED - not kept'); return 3
        # run checks against the changed copy
        results = {}
        e2 = dict(os.environ, VERIF_REPO=d)
        order = [prop] + ([p for p in PROPS if p != prop] if run_all else [])
        for p in order:
            t0 = time.time()
            rc, out = sh([PY, '-m', 'vz', 'check', p, '--tier', 'quick'], cwd='/verif', env=e2)
            sigs = re.findall(r'what: (.*?) \(x\d+\)', out)
            results[p] = {'rc': rc, 'signatures': sigs[:6], 'wall_s': round(time.time() - t0, 1)}
            print(p, rc, sigs[:3])
        if results[prop]['rc'] != 1 and not run_all:
            for p in [p for p in PROPS if p != prop]:
                rc, out = sh([PY, '-m', 'vz', 'check', p, '--tier', 'quick'], cwd='/verif', env=e2)
                sigs = re.findall(r'what: (.*?) \(x\d+\)', out)
                results[p] = {'rc': rc, 'signatures': sigs[:6]}
                if rc == 1:
                    print(p, rc, sigs[:3])
            rc, out = sh([PY, '-m', 'vz', 'check', prop, '--tier', 'thorough'], cwd='/verif', env=e2, timeout=7200)
            results[prop + ':thorough'] = {'rc': rc, 'signatures': re.findall(r'what: (.*?) \(x\d+\)', out)[:6]}
            print(prop + ':thorough', rc, results[prop + ':thorough']['signatures'][:3])
        meta['checks_quick'] = results
        meta['caught_by'] = sorted(p for p, r in results.items() if r['rc'] == 1)
        meta['what_it_needs'] = open(notes).read()[:1500] if os.path.exists(notes) else ''
        meta['ran'] = 'tools/eval_mutant.py %s %s %s: patch applied to a scratch copy of /repo; repository suite (pinned version 0.2.9) run with the change; demo run with and without it; checks run with VERIF_REPO=<copy>' % (src, k, prop)
        dst = '/verif/seeded/%s-m%s' % (prop, as_k)
        os.makedirs(dst, exist_ok=True)
        shutil.copy(diff, dst + '/patch.diff'); shutil.copy(demo, dst + '/demo.py')
        if os.path.exists(notes):
            shutil.copy(notes, dst + '/notes.md')
        json.dump(meta, open(dst + '/meta.json', 'w'), indent=1)
        print('KEPT', dst, 'caught by', meta['caught_by'])
    finally:
        shutil.rmtree(d, ignore_errors=True)
        try:
            shutil.rmtree(pin, ignore_errors=True)
        except Exception:
            pass


if __name__ == '__main__':
    sys.exit(main() or 0)

"""C03 conformance checker: bytes of a written SGZ file vs docs/file-specification.md and the truth
known to the generator.  Runs on every file any writer returns, in every writer-side check."""
import numpy as np

from . import oracles
from .oracles import KEYS, pad


def check(path, truth=None, tag=''):
    """truth keys (all optional): shape, ilines, xlines, samples, rate, bs, ntraces, version (M,m,p,released),
    arrays {key: array over grid}, consts {key: v}, data_image (real-extent volume the file must decode to),
    file_header (3600 bytes), hash (20 bytes), source_code, detect_code.
    Returns (violations, spec)."""
    truth = truth or {}
    bad = []

    def v(sig, detail):
        bad.append({'sig': '%sconformance:%s' % (tag, sig), 'detail': detail})
    try:
        sp = oracles.Spec(path)
    except oracles.SpecError as e:
        v('unparseable', str(e))
        return bad, None
    raw = sp.raw
    # (a writer derived from an original-format file - one header block, no header-word table - keeps that layout: truth['nhb'], truth['legacy_table'])
    if sp.nhb != truth.get('nhb', 2):
        v('header-block-count', 'bytes 0-3 = %d, expected %d header blocks' % (sp.nhb, truth.get('nhb', 2)))
    nd = 2 if sp.is2d else 3
    # the specification only says "bits-per-voxel (negative signifying reciprocal)": any power of two is a well-formed rate
    # (which rates a writer must accept is C19's question, not conformance)
    lg = np.log2(sp.rate) if sp.rate_raw != 0 else 0.5
    if sp.rate_raw == 0 or lg != int(lg):
        v('bit-rate-field', 'bits-per-voxel field %d is not a power of two' % sp.rate_raw)
        return bad, sp
    bsh = sp.bshape
    if any(b < 4 or b & (b - 1) for b in bsh) or (sp.is2d and sp.bs[0] != 1):
        v('blockshape-field', 'blockshape %s: dimensions must be powers of two >= 4 (first = 1 for 2D)' % (sp.bs,))
        return bad, sp
    if int(np.prod(bsh)) * sp.rate != 32768:
        v('block-not-4096-bytes', 'blockshape %s x %s bits = %s bits, one block must be 32768' % (sp.bs, sp.rate, np.prod(bsh) * sp.rate))
        return bad, sp
    exp_ndb = sp.expected_ndb()
    if sp.ndb != exp_ndb:
        v('disk-block-count', 'header says %d data blocks, padded %s x %s bits / 8 / 4096 = %d' % (sp.ndb, sp.padded, sp.rate, exp_ndb))
    if sp.hlen != 4 * sp.grid_traces:
        v('header-array-length', 'array length field %d != 4 x %d grid traces' % (sp.hlen, sp.grid_traces))
    keys = [r[0] for r in sp.table]
    if keys != KEYS and not (truth.get('legacy_table') and not any(keys)):
        v('table-keys', 'header-word table does not list the 89 field offsets in order: %s...' % keys[:6])
    stored = [r[0] for r in sp.table if r[2] == r[0] and r[1] == 0 and r[0] != 0]       # (all-zero rows: table of an original-format file)
    if len(stored) != sp.narr:
        v('array-count', 'header says %d arrays, table has %d self-referencing rows' % (sp.narr, len(stored)))
    seen = set()
    for key, const, dup in sp.table:
        if dup == key and const == 0:
            seen.add(key)
        elif dup != 0 and const == 0 and dup not in seen:
            v('duplicate-row-target', 'row %d is marked duplicate of %d which is not an earlier stored row' % (key, dup))
        elif dup != 0 and const != 0:
            v('row-both-constant-and-duplicate', 'row %d has constant %d and duplicate reference %d' % (key, const, dup))
    exp_len = sp.data0 + 4096 * exp_ndb + len(stored) * sp.stride
    if len(raw) != exp_len:
        v('file-length', 'file is %d bytes; 8192 + 4096 x %d + %d arrays x stride %d (%s footer convention of %s) = %d'
          % (len(raw), exp_ndb, len(stored), sp.stride, 'padded' if sp.post_021 else 'unpadded', sp.version, exp_len))
    if not sp.is2d and sp.post_021 is False and sp.ntr_field not in (0, sp.grid_traces):
        pass
    # truth -----------------------------------------------------------------------------------
    if 'shape' in truth and tuple(truth['shape']) != tuple(sp.shape):
        v('dimensions', 'header dimensions %s, true %s' % (sp.shape, tuple(truth['shape'])))
    if 'rate' in truth and truth['rate'] != sp.rate:
        v('bit-rate', 'header rate %s, requested %s' % (sp.rate, truth['rate']))
    if 'bs' in truth and tuple(truth['bs']) != tuple(sp.bs):
        v('blockshape', 'header blockshape %s, requested/resolved %s' % (sp.bs, tuple(truth['bs'])))
    if 'ntraces' in truth and sp.post_021 and sp.ntr_field != truth['ntraces']:
        v('trace-count', 'trace-count field %d, true %d' % (sp.ntr_field, truth['ntraces']))
    if 'version' in truth and tuple(sp.version) != tuple(truth['version']):
        v('version-field', 'stamped %s, writing library is %s' % (sp.version, truth['version']))
    if not sp.is2d:
        for name, axis, got in (('inline', truth.get('ilines'), sp.ilines()), ('crossline', truth.get('xlines'), sp.xlines())):
            if axis is not None and not (len(axis) == len(got) and np.array_equal(np.asarray(axis, dtype=np.int64), got)):
                v('%s-axis' % name, 'header gives %s..., true %s...' % (got[:3], np.asarray(axis)[:3]))
    if truth.get('samples') is not None:
        s = np.asarray(truth['samples'], dtype=np.float64)
        got = sp.samples()
        if len(s) != len(got) or not np.allclose(got, s, rtol=1e-6, atol=1e-6):
            v('sample-axis', 'header gives %s..., true %s...' % (got[:3], s[:3]))
    if 'file_header' in truth and sp.file_header != truth['file_header']:
        v('file-header-bytes', '3600-byte SEG-Y file header differs from the source')
    if 'hash' in truth and sp.hash != truth['hash']:
        v('hash-bytes', 'bytes 960-979 %s != expected %s' % (sp.hash.hex(), truth['hash'].hex()))
    if 'source_code' in truth and sp.source_code != truth['source_code']:
        v('source-code', 'source format code %d != %d' % (sp.source_code, truth['source_code']))
    if 'detect_code' in truth and sp.detect_code != truth['detect_code']:
        v('detection-code', 'header-detection code %d != %d' % (sp.detect_code, truth['detect_code']))
    # a decoder written from the specification can read every sample and every header array
    if len(raw) >= exp_len and sp.ndb == exp_ndb:
        try:
            if truth.get('data_image') is not None:
                V = sp.decode()
                img = truth['data_image']
                if V.shape != img.shape or V.tobytes() != np.ascontiguousarray(img, dtype=np.float32).tobytes():
                    n = int((V != img).sum()) if V.shape == img.shape else -1
                    v('spec-decode-differs-from-codec-image', 'O-SPEC decode differs from the expected image at %d voxel(s)' % n)
            if truth.get('fields') is not None:
                arrs = sp.arrays()
                fs = sp.field_source()
                for k, a in truth['fields'].items():
                    kind, val = fs[k]
                    got = np.full(sp.grid_traces, val, dtype=np.int64) if kind == 'const' else np.asarray(arrs[val], dtype=np.int64)
                    a = np.asarray(a, dtype=np.int64)
                    if truth.get('field_mask') is not None and got.shape == a.shape:
                        # irregular surveys: constants have no value at empty grid positions
                        m = np.asarray(truth['field_mask'])
                        got, a = (got[m], a[m]) if kind == 'const' else (got, a)
                    if got.shape != a.shape or not np.array_equal(got, a):
                        nbad = int((got != a).sum()) if got.shape == a.shape else -1
                        v('header-field-values', 'field %d decoded from table (%s %s) + footer differs from the source at %d trace(s)'
                          % (k, kind, val, nbad))
                        break
            if truth.get('arrays') is not None:
                arrs = sp.arrays()
                for k, a in truth['arrays'].items():
                    src = sp.field_source().get(k)
                    if src is None or src[0] != 'array':
                        v('array-missing', 'field %d varies in the source but the table gives %s' % (k, src))
                    elif not np.array_equal(arrs[src[1]], np.asarray(a, dtype=np.int64)):
                        v('array-content', 'stored array for field %d (at table slot of %d) differs from the truth' % (k, src[1]))
            if truth.get('consts') is not None:
                fs = sp.field_source()
                for k, c in truth['consts'].items():
                    if fs[k] != ('const', c):
                        v('constant-field', 'field %d: table gives %s, true constant %d' % (k, fs[k], c))
        except oracles.SpecError as e:
            v('spec-decode-failed', str(e))
    return bad, sp

"""C01 write-then-read fidelity: read_volume() of the written file and the bytes of its data section
vs the per-cell ZFP fixed-rate image of the edge-extended source, over routes x settings."""
import itertools
import os
import random

import numpy as np

from .. import conform, conv, env, files, monitors, oracles

ID, TITLE, LEVEL = 'C01', 'write-then-read fidelity', 'exploration'
RULE = ('case = one source cube (SEG-Y IBM/IEEE with 0-2 extended textual headers, written through segyio; samples '
        'as segyio reads them back; or a ZGY file written through pyzgy, converted by ZgyConverter / zgy2sgz and by the NumPy route) x several valid (bits_per_voxel, blockshape) settings x routes {NumPy, SEG-Y/segyio, '
        'SEG-Y/reduced-I/O, CLI in-process, CLI subprocess} x forced queue capacities {1,2,16}; monitors: read_volume() '
        'bitwise = O-ZFP image; every data-section cell intersecting the X4 extent bytewise = independent per-cell '
        'encoding; all routes byte-identical on the real extent; C03 conformance. distinct = (shape residues mod 4 '
        'and mod blockshape, rate, blockshape, route); non-trivial = cube has >= 2 voxels per axis and the conversion '
        'produced a file whose volume was compared')
ASSUMPTIONS = ['zfpy/libzfp fixed-rate coding is cell-independent (re-validated on every run by validate_codec)',
               'segyio reads the generated SEG-Y correctly (O-SRC)']


def valid_grid():
    out = []
    for rate in oracles.VALID_RATES:
        k = int(round(np.log2(32768 / rate)))
        for a in range(2, k - 3):
            for b in range(2, k - a - 1):
                c = k - a - b
                if c >= 2:
                    out.append((rate, (2 ** a, 2 ** b, 2 ** c)))
    return out


def shape_for(bs, rng, cap):
    """Cube with every residue class possible: below one block, exactly, above, several."""
    for _ in range(100):
        shp = []
        for b in bs:
            c = rng.choice(['small', 'b-1', 'b', 'b+1', '2b+1', '3b-2', 'rand'])
            v = {'small': rng.choice([2, 3, 4, 5, 7, 8, 9]), 'b-1': b - 1, 'b': b, 'b+1': b + 1, '2b+1': 2 * b + 1,
                 '3b-2': 3 * b - 2, 'rand': rng.randint(2, 2 * b)}[c]
            shp.append(max(2, v))
        if np.prod([oracles.pad(s, b) for s, b in zip(shp, bs)]) <= cap and shp[0] * shp[1] <= 6000:
            return tuple(shp)
    return tuple(max(2, min(b, rng.choice([2, 3, 5, 7]))) for b in bs)


def cases(tier, seed):
    rng = random.Random('C01/%s' % seed)
    grid = valid_grid()
    out = []
    cap = 1_200_000 if tier == 'quick' else 8_000_000
    if tier == 'quick':
        chosen = []
        # every rate x layout class at least once
        for rate in oracles.VALID_RATES:
            g = [s for s in grid if s[0] == rate]
            chosen.append(next(s for s in g if s[1][:2] == (4, 4)))
            chosen.append(rng.choice([s for s in g if s[1][2] == 4]))
            chosen.append(rng.choice([s for s in g if s[1][0] == 4 and s[1][1] != 4]))
            chosen.append(rng.choice([s for s in g if s[1][0] != 4 and s[1][2] != 4]))
        chosen = chosen * 2 + rng.sample(grid, 40)
    else:
        chosen = grid * 2
    rng.shuffle(chosen)
    for i, (rate, bs) in enumerate(chosen):
        shape = shape_for(bs, rng, cap)
        if bs[:2] == (4, 4) and i % 3 == 1 and rate >= 1:
            # many plane sets (more than twice the number of cores, not a multiple of it): readers split such volumes among worker threads
            import os as _os
            nc = _os.cpu_count() or 1
            shape = (4 * (2 * nc + 1) - rng.choice([0, 1, 3]), rng.choice([2, 5]), min(shape[2], 9))
        src = conv.src_desc(rng, '3d', shape, ext=rng.choice([0, 0, 1, 2]), il=[rng.choice([1, 10, -5]), rng.choice([1, 2])],
                            xl=[rng.choice([1, 100]), rng.choice([1, 3])], hdr={'seed': i, 'nfields': 1, 'inside': True})
        if i % 7 == 5:
            src['fmt'] = [2, 3, 8][(i // 7) % 3]          # integer sample formats
        if i % 9 == 4:
            src['sorting'] = 1                            # crossline-sorted file (the cube is the same, the trace order is not)
            if i % 18 == 4:
                src['valkind'] = 'deadborder'             # ... with a dead rim: the first n_xl traces of the file equal the first inline's, nothing tells the two trace orders apart there
        routes = ['numpy', 'segyio', 'iops']
        if i % 4 == 0:
            routes.append('cli')
        if i % (16 if tier == 'quick' else 40) == 0:
            routes.append('cli-sub')
        spelled = rng.choice(['full', 'bs-1', 'rate-1', 'str', 'neg'])
        pr = rng.choice(grid) if i % 3 == 1 else None
        out.append({'id': 'g:%s:%s:%d' % (rate, 'x'.join(map(str, bs)), i), 'src': src, 'rate': rate, 'bs': list(bs), 'prerun': [pr[0], list(pr[1])] if pr else None,
                    'routes': routes, 'spelling': spelled, 'qcap': rng.choice([None, 1, 2, 16]),
                    'cost': 1 + np.prod([oracles.pad(s, b) for s, b in zip(shape, bs)]) / 3e5})
    # ZGY route on generated ZGY files (pyzgy's writer): every rate x layout class, axes of either sign, float sample axes
    zg = []
    for rate in oracles.VALID_RATES:
        g = [s for s in grid if s[0] == rate]
        zg.append(next(s for s in g if s[1][:2] == (4, 4)))
        zg.append(rng.choice([s for s in g if s[1][2] == 4]))
        zg.append(rng.choice([s for s in g if s[1][0] == 4 and s[1][1] != 4]))
        zg.append(rng.choice([s for s in g if s[1][0] != 4 and s[1][2] != 4]))
    if tier != 'quick':
        zg = zg * 2 + rng.sample(grid, 100)
    for i, (rate, bs) in enumerate(zg):
        shape = shape_for(bs, rng, cap // 2)
        out.append({'id': 'zgy:%s:%s:%d' % (rate, 'x'.join(map(str, bs)), i), 'zgy': conv.zgy_desc(rng, shape), 'rate': rate, 'bs': list(bs),
                    'cli': i % 5 == 0, 'cost': 2 + np.prod([oracles.pad(s, b) for s, b in zip(shape, bs)]) / 3e5})
    # VDS / ZGY routes on the fixtures
    for rel, conv_name in [('vds/small.vds', 'VdsConverter'), ('zgy/small-32bit.zgy', 'ZgyConverter'), ('zgy/small-16bit.zgy', 'ZgyConverter'),
                           ('zgy/small-8bit.zgy', 'ZgyConverter'), ('zgy/small-float-samplerate.zgy', 'ZgyConverter')]:
        for rate in ([4, 1] if tier == 'quick' else oracles.VALID_RATES):
            out.append({'id': 'fx:%s:%s' % (rel, rate), 'fixture': rel, 'converter': conv_name, 'rate': rate, 'cost': 2})
    return out


def spell(rate, bs, how, rng):
    """Ways of writing the same setting: one parameter left -1, string / negative-reciprocal rate."""
    bs = list(bs)
    if how == 'bs-1':
        bs[rng.randrange(3)] = -1
        return rate, tuple(bs)
    if how == 'rate-1':
        return -1, tuple(bs)
    if how == 'str':
        return str(rate), tuple(bs)
    if how == 'neg' and rate < 1:
        return -int(round(1 / rate)), tuple(bs)
    return rate, tuple(bs)


def check_bytes(sp, D, rate, tag):
    """Every compressed cell of the data section that intersects the X4 extent vs the harness's encoder."""
    bsh = sp.bshape
    P = oracles.pad_array(D, bsh, 'edge')
    cs = oracles.CellStream(P, rate)
    cb = cs.cb
    x4 = [oracles.pad(s, 4) // 4 for s in D.shape]
    cpb = [b // 4 for b in bsh]
    ncmp = 0
    for k, bidx in enumerate(itertools.product(*[range(g) for g in sp.bgrid])):
        blk = sp.block(k)
        for j, cidx in enumerate(itertools.product(*[range(c) for c in cpb])):
            g = tuple(bi * c + ci for bi, c, ci in zip(bidx, cpb, cidx))
            if all(gi < xi for gi, xi in zip(g, x4)):
                ncmp += 1
                if blk[j * cb:(j + 1) * cb] != cs.cell(g):
                    return [{'sig': '%sdata-section-cell-bytes-differ' % tag,
                             'detail': 'block %d cell %s (global cell %s): bytes differ from the independent per-cell encoding' % (k, cidx, g)}], ncmp
    return [], ncmp


def run_fixture_route(case, ctx):
    import seismic_zfp.conversion as C
    from seismic_zfp.read import SgzReader
    path = os.path.join(env.TEST_DATA, case['fixture'])
    out = ctx['scratch'].file('out.sgz')
    rate = case['rate']
    if case['converter'] == 'VdsConverter':
        import pyvds
        ref = np.ascontiguousarray(pyvds.tools.cube(path), dtype=np.float32)
    else:
        import pyzgy
        ref = np.ascontiguousarray(pyzgy.tools.cube(path), dtype=np.float32)
    with env.quiet():
        with getattr(C, case['converter'])(path) as c:
            c.run(out, bits_per_voxel=rate)
    bad = []
    img = oracles.image(ref, rate)
    with SgzReader(out) as r:
        V = r.read_volume()
    if V.shape != img.shape or V.tobytes() != img.tobytes():
        bad.append({'sig': '%s:read-volume-differs-from-codec-image' % case['converter'], 'detail': 'shape %s rate %s' % (ref.shape, rate)})
    b, sp = conform.check(out, {'shape': ref.shape, 'rate': rate, 'data_image': img})
    bad += b
    return {'violations': bad, 'counters': {'conversions': 1, 'volumes_compared': 1}, 'strata': ['route:' + case['converter'], 'rate:%s' % rate],
            'key': case['id']}


def run_zgy_case(case, ctx):
    """Generated ZGY source -> ZgyConverter (API, CLI) and the NumPy route on the same samples."""
    from seismic_zfp.read import SgzReader
    src = conv.build_source(case['zgy'], ctx['scratch'])
    D = src['data']
    rate, bs = case['rate'], tuple(case['bs'])
    img = oracles.image(D, rate)
    bad, strata, counters = [], set(), {'conversions': 0, 'volumes_compared': 0, 'cells_compared': 0}
    volumes = {}
    routes = [('zgy', rate, bs), ('numpy', rate, bs)] + ([('zgy-cli', rate, (4, 4, int(2048 // rate)))] if case.get('cli') else [])
    for route, r_, b_ in routes:
        out = ctx['scratch'].file('out-%s.sgz' % route)
        try:
            if route == 'numpy':
                conv.convert_numpy(D, out, r_, b_, ilines=src['ilines'], xlines=src['xlines'], samples=src['samples'])
            else:
                conv.convert_zgy(src['path'], out, r_, b_, cli=route == 'zgy-cli')
        except monitors.ContractBreach:
            raise
        except Exception as e:  # noqa
            bad.append({'sig': '%s:valid-setting-rejected-%s' % (route, type(e).__name__), 'detail': 'rate %r blockshape %r shape %s: %r' % (r_, b_, D.shape, e)})
            continue
        counters['conversions'] += 1
        strata.update(['route:' + route + ('-generated' if route != 'numpy' else ''), 'rate:%s' % rate])
        strata.add('zgy-layout:' + ('default' if b_[:2] == (4, 4) else 'zslice' if b_[2] == 4 else '4xNxM' if b_[0] == 4 else 'general'))
        try:
            with SgzReader(out) as r:
                V = r.read_volume()
        except Exception as e:  # noqa
            bad.append({'sig': '%s:written-file-unreadable-%s' % (route, type(e).__name__), 'detail': 'rate %s bs %s shape %s: %r' % (rate, b_, D.shape, e)})
            continue
        counters['volumes_compared'] += 1
        volumes[route] = V
        if V.shape != img.shape or V.tobytes() != img.tobytes():
            n = int((V != img).sum()) if V.shape == img.shape else -1
            bad.append({'sig': '%s:read-volume-differs-from-codec-image' % route,
                        'detail': 'rate %s blockshape %s shape %s: %d voxel(s) differ' % (rate, b_, D.shape, n)})
        truth = {'shape': D.shape, 'rate': rate, 'bs': b_, 'ilines': src['ilines'], 'xlines': src['xlines'], 'samples': src['samples'],
                 'ntraces': D.shape[0] * D.shape[1], 'data_image': img}
        if route != 'numpy':
            truth.update(source_code=10, fields=conv.zgy_truth_arrays(src))
        elif float(src['samples'][0]) != int(src['samples'][0]):
            del truth['samples']        # the NumPy route stores whole-millisecond start times only (domain of C05)
        b, sp = conform.check(out, truth, tag=route + ':')
        bad += b
        if sp is not None and sp.ndb == sp.expected_ndb() and len(sp.raw) >= sp.footer0:
            b, ncmp = check_bytes(sp, D, rate, route + ':')
            bad += b
            counters['cells_compared'] += ncmp
    names = list(volumes)
    for a, b2 in zip(names, names[1:]):
        if volumes[a].tobytes() != volumes[b2].tobytes():
            bad.append({'sig': 'routes-disagree:%s-vs-%s' % (a, b2), 'detail': 'rate %s bs %s shape %s' % (rate, bs, D.shape)})
    return {'violations': bad, 'counters': counters, 'strata': sorted(strata),
            'key': 'zgy|%s|%s|%s' % (rate, bs, tuple(s % 4 for s in D.shape)), 'nontrivial': counters['volumes_compared'] > 0}


def run_case(case, ctx):
    if ctx['rng'].random() < 2 and not ctx.get('codec_ok'):
        failures = oracles.validate_codec(random.Random(7), 4)
        if failures:
            return {'inconclusive': 'codec cell-independence fact failed: %s' % failures[:2]}
        ctx['codec_ok'] = True
    if 'fixture' in case:
        return run_fixture_route(case, ctx)
    if 'zgy' in case:
        return run_zgy_case(case, ctx)
    from seismic_zfp.read import SgzReader
    rng = ctx['rng']
    src = conv.build_source(case['src'], ctx['scratch'])
    D = src['data']
    rate, bs = case['rate'], tuple(case['bs'])
    img = oracles.image(D, rate)
    bad, strata, counters = [], set(), {'conversions': 0, 'volumes_compared': 0, 'cells_compared': 0}
    volumes = {}
    for route in case['routes']:
        out = ctx['scratch'].file('out-%s.sgz' % route)
        r_arg, bs_arg = spell(rate, bs, case['spelling'] if route != 'cli' and route != 'cli-sub' else 'full', rng)
        if route.startswith('cli') and rate < 1:
            r_arg = -int(round(1 / rate))
        try:
            # a third of the cases: the converter object has already written another file with another setting
            prerun = None
            if case.get('prerun'):
                prerun = (case['prerun'][0], tuple(case['prerun'][1]), 'thorough')
                strata.add('converter-reused')
            if route == 'numpy':
                conv.convert_numpy(D, out, r_arg, bs_arg, ilines=src['ilines'], xlines=src['xlines'], samples=src['samples'], prerun=prerun)
            elif route == 'segyio':
                # (sources with dead trailing lines are also converted without trace headers: nothing follows the data section then)
                det_ = 'strip' if case['src'].get('valkind') in ('deadends', 'deadborder', 'zeros') else 'heuristic'
                if det_ == 'strip':
                    strata.add('dead-tail-without-footer')
                conv.convert_segy(src['path'], out, r_arg, bs_arg, reduce_iops=False, prerun=prerun, detection=det_,
                                  mem_limit=None if case['qcap'] is None else 2 * case['qcap'] * bs[0] * D.shape[1] * D.shape[2] * 4)
            elif route == 'iops':
                conv.convert_segy(src['path'], out, r_arg, bs_arg, reduce_iops=True, prerun=prerun)
            elif route == 'cli':
                conv.convert_cli_inproc(src['path'], out, rate, bs, reduce_iops=rng.random() < 0.3 and src['fmt'] in (1, 5))
            elif route == 'cli-sub':
                conv.convert_cli_subprocess(src['path'], out, rate, bs)
        except monitors.ContractBreach:
            raise
        except Exception as e:  # noqa
            if src['fmt'] not in (1, 5) and (route == 'iops' or (route == 'cli' and 'reduce' in repr(e).lower() + 'reduce')):
                # the reduced-I/O reader supports IBM and IEEE samples only and the repository's tests pin that such an input is refused
                # (test_minimal_inline_reader_wrong_format): a refusal is not a fidelity violation (C01 names IBM and IEEE for this route)
                counters['iops_refused_integer_format'] = counters.get('iops_refused_integer_format', 0) + 1
                continue
            bad.append({'sig': '%s:valid-setting-rejected-%s' % (route, type(e).__name__),
                        'detail': 'rate %r blockshape %r shape %s: %r' % (r_arg, bs_arg, D.shape, e)})
            continue
        counters['conversions'] += 1
        strata.update(['sorting:%d' % case['src'].get('sorting', 2), 'route:' + route, 'rate:%s' % rate, 'fmt:%d' % src['fmt'], 'ext:%d' % case['src'].get('ext', 0),
                       'spelling:' + case['spelling']])
        strata.add('layout:' + ('default' if bs[:2] == (4, 4) else 'zslice' if bs[2] == 4 else '4xNxM' if bs[0] == 4 else 'general'))
        for ax, (s, b) in enumerate(zip(D.shape, bs)):
            strata.add('res4:%d' % (s % 4))
            strata.add('blocks:%s' % ('<1' if s < b else '=1' if s == b else '>1' if s <= 2 * b else '>2'))
        if route == 'segyio' and case['qcap'] is not None:
            strata.add('qcap:%d' % case['qcap'])
        try:
            with SgzReader(out) as r:
                V = r.read_volume()
        except Exception as e:  # noqa
            bad.append({'sig': '%s:written-file-unreadable-%s' % (route, type(e).__name__), 'detail': 'rate %s bs %s shape %s: %r' % (rate, bs, D.shape, e)})
            continue
        counters['volumes_compared'] += 1
        volumes[route] = V
        if V.shape != img.shape or V.tobytes() != img.tobytes():
            n = int((V != img).sum()) if V.shape == img.shape else -1
            bad.append({'sig': '%s:read-volume-differs-from-codec-image' % route,
                        'detail': 'rate %s blockshape %s shape %s fmt %d ext %d: %d voxel(s) differ' % (rate, bs, D.shape, src['fmt'], case['src'].get('ext', 0), n)})
        b, sp = conform.check(out, {'shape': D.shape, 'rate': rate, 'bs': bs, 'ilines': src['ilines'], 'xlines': src['xlines'],
                                    'samples': src['samples'], 'ntraces': D.shape[0] * D.shape[1], 'data_image': img}, tag=route + ':')
        bad += b
        if sp is not None and sp.ndb == sp.expected_ndb() and len(sp.raw) >= sp.footer0:
            b, ncmp = check_bytes(sp, D, rate, route + ':')
            bad += b
            counters['cells_compared'] += ncmp
    names = list(volumes)
    for a, b2 in zip(names, names[1:]):
        if volumes[a].tobytes() != volumes[b2].tobytes():
            bad.append({'sig': 'routes-disagree:%s-vs-%s' % (a, b2), 'detail': 'rate %s bs %s shape %s' % (rate, bs, D.shape)})
    return {'violations': bad, 'counters': counters, 'strata': sorted(strata),
            'key': '%s|%s|%s|%s' % (rate, bs, tuple(s % 4 for s in D.shape), tuple(min(3, -(-s // b)) for s, b in zip(D.shape, bs))),
            'nontrivial': counters['volumes_compared'] > 0}


def finalize(tier, cases, results, counters, strata):
    reasons = []
    need = ['sorting:1', 'sorting:2', 'converter-reused', 'route:zgy-generated', 'route:zgy-cli-generated', 'zgy-layout:default', 'zgy-layout:zslice', 'zgy-layout:4xNxM', 'zgy-layout:general',
            'route:numpy', 'route:segyio', 'route:iops', 'route:cli', 'route:cli-sub', 'route:VdsConverter', 'route:ZgyConverter',
            'layout:default', 'layout:zslice', 'layout:4xNxM', 'layout:general', 'fmt:1', 'fmt:5', 'fmt:2', 'fmt:3', 'fmt:8', 'ext:0', 'ext:1', 'ext:2',
            'qcap:1', 'qcap:2', 'qcap:16', 'blocks:<1', 'blocks:>1', 'blocks:>2'] + ['res4:%d' % i for i in range(4)] + \
           ['rate:%s' % r for r in oracles.VALID_RATES]
    for s in need:
        if s not in strata:
            reasons.append('required stratum not hit: ' + s)
    if counters.get('cells_compared', 0) == 0:
        reasons.append('byte monitor compared no cell')
    return {}, reasons

"""C16 writer pipeline under all interleavings: systematic schedule exploration of the real threads."""
import os
import random
import threading
import time

import numpy as np

from .. import conform, conv, env, gen, monitors, oracles, sched

ID, TITLE, LEVEL = 'C16', 'writer pipeline: interleavings', 'exploration'
RULE = ('case = one pipeline configuration (route in {NumPy, SEG-Y 3D, SEG-Y 3D thorough detection, SEG-Y reduced-I/O, 2D}, 1-3 plane '
        'sets / trace groups, queue capacity in {1,2,16}, whole-plane-set or per-block layout) explored under a serialising '
        'scheduler at the granularity queue put/get/task_done/join, thread start, file write (plus the entry of the codec call, where the compressor holds a buffer it has taken but not yet consumed): depth-first search with prefix '
        'replay over the graph of abstract states (per-thread operation count + pending operation + last item received, ordered '
        'content hashes and unfinished counts of both queues, hash and count of file writes) until every enabled choice of every '
        'reached state has been taken (mode dfs, reported exhaustive when it completes inside its execution budget) or, for the '
        'larger instances, seeded random and priority (PCT-style) schedules. Oracles per execution: no deadlock (decided on logical '
        'state), final bytes = file of an uninstrumented run, write order (header first by the writer thread, data strictly '
        'appended, footer and patches by the calling thread afterwards), no write after run() returned while daemon threads '
        'take every step still enabled. distinct = distinct schedules (operation sequences); non-trivial = every execution')
ASSUMPTIONS = ['CPython GIL: preemption inside a Queue method or a C call is not explored (the property is stated at the granularity used)',
               'state-graph DFS covers every transition between abstract states; the abstract state determines future behaviour because '
               'each thread is deterministic and its local state is a function of its operation count and the items it received']
CASE_TIMEOUT = {'quick': 900, 'thorough': 7200}


def cases(tier, seed):
    rng = random.Random('C16/%s' % seed)
    out = []
    # (route, plane sets, capacity, per-block layout?, mode, budget)
    q = tier == 'quick'
    cfgs = []
    for route in ('numpy', 'segy', 'segy-thorough', '2d', 'segy-iops'):
        for ps in (1, 2):
            for cap in (1, 2, 16):
                cfgs.append((route, ps, cap, False, 'dfs', 4000 if q else 60000))
    cfgs.append(('segy-heuristic', 1, 1, False, 'dfs', 4000))
    cfgs.append(('segy-heuristic', 2, 2, False, 'random', 40 if q else 1000))
    for route in ('numpy', 'segy', '2d'):
        for cap in (1, 2):
            cfgs.append((route, 2, cap, True, 'dfs', 3000 if q else 60000))       # per-block layout: several queue items per plane set
    for route in ('numpy', 'segy', '2d', 'segy-thorough'):
        for cap in (1, 2, 16):
            cfgs.append((route, 3, cap, False, 'random', 150 if q else 3000))
            cfgs.append((route, 3, cap, False, 'pct', 100 if q else 2000))
    if not q:
        for route in ('numpy', 'segy', '2d'):
            for cap in (1, 2, 16):
                cfgs.append((route, 3, cap, False, 'dfs', 200000))
                cfgs.append((route, 3, cap, True, 'random', 3000))
    for i, (route, ps, cap, blk, mode, budget) in enumerate(cfgs):
        out.append({'id': '%s:ps%d:cap%d:%s:%s' % (route, ps, cap, 'blocks' if blk else 'sets', mode), 'route': route, 'ps': ps, 'cap': cap, 'blocks': blk,
                    'mode': mode, 'budget': budget, 'sseed': rng.randrange(1 << 30), 'cost': budget / 500.0 + 1})
    # "always completes" when the storage stops taking data: the k-th write of the output fails (disk full); under every explored schedule
    # the call must come back - by raising - and nothing may be written after it has
    for route in ('numpy', 'segy', '2d'):
        for cap in (1, 2, 16):
            for k in (0, 1, 2):
                out.append({'id': '%s:ps3:cap%d:write-fault@%d' % (route, cap, k), 'route': route, 'ps': 3, 'cap': cap, 'blocks': False, 'mode': 'random',
                            'budget': 25 if q else 300, 'sseed': rng.randrange(1 << 30), 'cost': 2, 'fail_at': k})
    # ... and when the producer fails part-way (its source cannot be read any more) while plane sets are still queued: the call raises, and
    # the output file must not change after it has (the workers that are still alive must not go on writing into it)
    for route in ('numpy', 'segy'):
        for cap in (1, 2, 16):
            for k in (1, 2):
                out.append({'id': '%s:ps3:cap%d:producer-fault@%d' % (route, cap, k), 'route': route, 'ps': 3, 'cap': cap, 'blocks': False, 'mode': 'random',
                            'budget': 25 if q else 300, 'sseed': rng.randrange(1 << 30), 'cost': 2, 'fail_put': k})
    # ... the same with the failure arising where it does in practice: the source file is cut short while the producer is about to hand over
    # plane set k, so that its next read of the source fails inside whatever reads it
    for cap in (1, 2, 16):
        for route in ('segy', 'segy-iops'):
            out.append({'id': '%s:ps5:cap%d:source-truncated@1' % (route, cap), 'route': route, 'ps': 5, 'cap': cap, 'blocks': False, 'mode': 'random',
                        'budget': 15 if q else 200, 'sseed': rng.randrange(1 << 30), 'cost': 2, 'fail_put': 1, 'truncate_source': True})
    return out


def setup(case, sc):
    """-> (job(out_path), reference description)"""
    route, ps = case['route'], case['ps']
    rate = 8
    if route == '2d':
        det2 = 'exhaustive'
        bs = (1, 8, -1) if case['blocks'] else (1, 4, -1)
        b1 = bs[1]
        nT = {1: b1 - 1, 2: b1 + 1, 3: 2 * b1 + 1}[ps]
        nZ = 5 if not case['blocks'] else 513
        src = {'geom': '2d', 'shape': [nT, nZ], 'il': [1, 1], 'xl': [1, 1], 'dt': 4000, 't0': 0, 'fmt': 5, 'ext': 0, 'cubeseed': 2, 'valkind': 'smooth',
               'hdr': {'seed': 4, 'nfields': 2, 'inside': True}, 'how2d': 'nonumbers'}
        s = conv.build_source(src, sc)
        # the capacity is also what the converter itself derives from the machine's memory (and hands to the pipeline as queue_size)
        mem2 = 2 * case['cap'] * nT * nZ * 4
        return (lambda out, mem_=mem2: conv.convert_segy(s['path'], out, rate, bs, detection=det2, mem_limit=mem_)), s, rate, bs
    bs = (8, 8, -1) if case['blocks'] else (4, 4, -1)
    b0 = bs[0]
    nI = {1: b0 - 1, 2: b0 + 1, 3: 2 * b0 + 1, 5: 4 * b0 + 1}[ps]
    nX, nZ = (5, 6) if not case['blocks'] else (9, 65)
    if route == 'numpy':
        D = gen.cube((nI, nX, nZ), 3)
        return (lambda out, mem_=None: conv.convert_numpy(D, out, rate, bs)), {'data': D, 'geom': 'numpy'}, rate, bs
    src = {'geom': '3d', 'shape': [nI, nX, nZ], 'il': [1, 1], 'xl': [1, 1], 'dt': 4000, 't0': 0, 'fmt': 5, 'ext': 0, 'cubeseed': 2, 'valkind': 'smooth',
           'hdr': {'seed': 4, 'nfields': 2, 'inside': True}, 'sorting': 2}
    s = conv.build_source(src, sc)
    # 'exhaustive' drives the pipeline exactly like 'heuristic' (no in-place table patch) but skips the slow first/last-trace analysis
    det = 'thorough' if route == 'segy-thorough' else 'heuristic' if route == 'segy-heuristic' else 'exhaustive'
    mem = 2 * case['cap'] * b0 * nX * nZ * 4
    return (lambda out, mem_=mem: conv.convert_segy(s['path'], out, rate, bs, reduce_iops=route == 'segy-iops', detection=det, mem_limit=mem_)), s, rate, bs


def run_one(job, out, chooser, cap, fail_at=None, fail_put=None, truncate_src=None):
    """One controlled execution.  Returns dict(deadlock, trace, bytes, py/raw write logs, writes_after_return)."""
    import seismic_zfp.conversion as C
    import seismic_zfp.conversion_utils as CU
    S = sched.Sched(chooser, capacity=cap)
    IQ, IT = sched.instrument(S)
    rec = monitors.RecordingOpen(only=out)

    nw = [0]

    def before_write(hid, data):
        S.yield_(lambda: True, 'write')
        nw[0] += 1
        if fail_at is not None and nw[0] - 1 == fail_at:
            S.injected_write_faults = getattr(S, 'injected_write_faults', 0) + 1
            raise OSError(28, 'No space left on device (injected at write %d)' % fail_at)
        S.note_write(data)
    rec.before_write = before_write
    if fail_put is not None:
        nput = [0]
        main_tid = threading.get_ident()

        def put_hook(qidx):
            if qidx == 0 and threading.get_ident() == main_tid:
                nput[0] += 1
                if nput[0] - 1 == fail_put:
                    S.injected_producer_faults = getattr(S, 'injected_producer_faults', 0) + 1
                    if truncate_src:
                        os.truncate(truncate_src, 3600 + 240)       # the source loses everything after its first trace header
                        return
                    raise OSError(5, 'Input/output error (injected: source unreadable at plane set %d)' % fail_put)
        S.put_hook = put_hook
    oldq, oldt, oldz = CU.Queue, CU.Thread, CU.zfpy

    class _Zfpy:
        """the codec call is a further yield point: the compressor holds a buffer it has taken from the queue but not consumed yet"""
        def __getattr__(self, name):
            return getattr(oldz, name)

        def compress_numpy(self, arr, *a, **k):
            S.yield_(lambda: True, 'compress')
            return oldz.compress_numpy(arr, *a, **k)
    CU.Queue, CU.Thread, CU.zfpy = IQ, IT, _Zfpy()
    # the same classes under their library names, for code that reaches them as threading.Thread / queue.Queue
    import queue as _q
    import threading as _th
    old_glob = (_th.Thread, _q.Queue)
    _th.Thread, _q.Queue = IT, IQ
    import time as _t
    old_sleep = _t.sleep
    _t.sleep = S.vsleep              # polling loops: sleeping is a scheduling point in virtual time
    C.open = rec
    err = None
    try:
        try:
            job(out)
        except sched.Unwind:
            pass
        except Exception as e:  # noqa
            err = e
        if fail_put is not None and not S.deadlock:
            # what the output file holds at the moment the call comes back
            try:
                S.file_at_return = open(out, 'rb').read()
            except OSError:
                S.file_at_return = None
        if not S.deadlock and (err is None or fail_at is not None or fail_put is not None):
            S.after_return()          # (also when the call came back by raising after an injected write failure: what do the workers still write?)
        else:
            S.abort()
    finally:
        CU.Queue, CU.Thread, CU.zfpy = oldq, oldt, oldz
        _th.Thread, _q.Queue = old_glob
        _t.sleep = old_sleep
        del C.open
    # let unwound daemon threads exit
    t0 = time.time()
    while any(t.name.startswith(('compressor', 'writer')) and t.is_alive() for t in threading.enumerate()) and time.time() - t0 < 2:
        time.sleep(0.0005)
    return S, rec, err


def check_write_order(rec, S, ref_len):
    """header first, data strictly appended by the writer thread, then footer/patches by the calling thread."""
    bad = []
    py = rec.py
    if not py:
        return ['no write recorded']
    if py[0][1] != 8192 or not py[0][2].startswith('writer'):
        bad.append('first write is %d bytes by %s, expected the 8192-byte header by the writer thread' % (py[0][1], py[0][2]))
    seen_main = False
    for hid, n, th in py:
        if hid == 0:
            if th.startswith('writer'):
                if seen_main:
                    bad.append('writer-thread write after the calling thread started writing footer/patches')
                    break
            else:
                seen_main = True
    # raw writes through the main handle must be strictly appending
    pos = 0
    for hid, off, data, th in rec.raw:
        if hid == 0 and off >= 0:
            if off != pos:
                bad.append('raw write at offset %d, expected append at %d' % (off, pos))
                break
            pos += len(data)
    return bad


def run_case(case, ctx):
    sc = ctx['scratch']
    job, src, rate, bs = setup(case, sc)
    ref_path = sc.file('ref.sgz')
    # uninstrumented run with the real, free-running threads on a machine with plenty of memory (the library's default capacity): the file
    # must not depend on the capacity.  It runs beside a generous watchdog - a pipeline that hangs for real must not hang the check
    box = {}

    def _ref():
        try:
            job(ref_path, None)
            box['ok'] = True
        except BaseException as e:  # noqa
            box['err'] = e
    th = threading.Thread(target=_ref, daemon=True)
    th.start()
    th.join(300)
    if th.is_alive():
        return {'inconclusive': 'the free-running reference conversion did not return within 300 s', 'counters': {'executions': 0}}
    if 'err' in box:
        raise box['err']
    ref = open(ref_path, 'rb').read()
    bad = []
    # the reference itself must be the right file (C01 / C03), otherwise "equal to the reference" means nothing
    D = src['data']
    b, _ = conform.check(ref_path, {'shape': D.shape, 'rate': rate, 'data_image': oracles.image(D, rate)}, tag='reference:')
    bad += b
    out = sc.file('run.sgz')
    rng = random.Random(case['sseed'])
    visited = {}            # abstract state -> set of thread names taken from it
    enabled_at = {}         # abstract state -> names enabled there
    transitions = set()
    schedules = set()
    n_exec = 0
    faults = 0
    pfaults = 0
    own_cap = False
    virt = [0, 0, 0]
    maxlen = 0
    complete = False
    prefix = []
    t_start = time.time()
    while n_exec < case['budget']:
        path = []           # [(state, names, choice)]
        pos = [0]
        if case['mode'] == 'pct':
            prio = {}
            change = set(rng.sample(range(60), 2))

        def chooser(en, S):
            names = [t.name for t in en]
            st = S.abstract_state()
            i = pos[0]
            pos[0] += 1
            enabled_at.setdefault(st, set()).update(names)
            if case['mode'] == 'dfs':
                if i < len(prefix) and prefix[i] in names:
                    c = prefix[i]
                else:
                    un = [n for n in names if n not in visited.get(st, ())]
                    # nothing new to try here: let a thread run that does something (a polling thread can go on looking for ever)
                    act = [t.name for t in en if not t.label.startswith(('sleep', 'peek'))]
                    c = un[0] if un else (act or names)[0]
            elif case['mode'] == 'random':
                c = rng.choice(names)
            else:
                for n in names:
                    prio.setdefault(n, rng.random())
                if i in change:
                    top = max(names, key=lambda n: prio[n])
                    prio[top] = -rng.random()
                c = max(names, key=lambda n: prio[n])
                if en[names.index(c)].label.startswith('sleep'):
                    prio[c] = -rng.random()          # a thread that goes to sleep yields: lowest priority from here (or it would poll for ever)
            visited.setdefault(st, set()).add(c)
            transitions.add((st, c))
            path.append((st, c))
            return en[names.index(c)]
        if os.path.exists(out):
            os.remove(out)
        if case.get('truncate_source'):
            import shutil
            if not os.path.exists(src['path'] + '.whole'):
                shutil.copy(src['path'], src['path'] + '.whole')
            shutil.copy(src['path'] + '.whole', src['path'])
        S, rec, err = run_one(job, out, chooser, case['cap'], case.get('fail_at'), case.get('fail_put'), src['path'] if case.get('truncate_source') else None)
        if not S.queues or not S.trace or (not rec.py and err is None and not S.deadlock):
            # the pipeline did not go through the instrumented Queue / Thread / open (e.g. after a refactoring): nothing was controlled
            return {'inconclusive': 'instrumentation not reached: %d queues, %d scheduled operations, %d recorded writes' % (len(S.queues), len(S.trace), len(rec.py)),
                    'counters': {'executions': 0}}
        n_exec += 1
        if S.requested_maxsize and all(m == case['cap'] for m in S.requested_maxsize):
            own_cap = True
        virt[0] += S.timeouts_fired
        virt[1] += S.timed_waits
        virt[2] += S.peeks + S.sleeps
        maxlen = max(maxlen, len(S.trace))
        schedules.add(hash(tuple(S.trace)))
        sched_txt = ' '.join('%s.%s' % (a[:4], b2) for a, b2 in S.trace[-40:])
        if case.get('fail_put') is not None:
            pfaults += getattr(S, 'injected_producer_faults', 0)
            if not getattr(S, 'injected_producer_faults', 0):
                pass
            elif S.deadlock:
                bad.append({'sig': 'pipeline:producer-failure:call-never-returns', 'detail': 'blocked: %s; schedule tail: %s' % (getattr(S, 'blocked', None), sched_txt)})
            elif err is None:
                bad.append({'sig': 'pipeline:producer-failure:not-reported', 'detail': 'the producer raised OSError at plane set %d but run() returned normally; schedule tail: %s' % (case['fail_put'], sched_txt)})
            else:
                try:
                    now = open(out, 'rb').read()
                except OSError:
                    now = None
                if now != getattr(S, 'file_at_return', None):
                    bad.append({'sig': 'pipeline:producer-failure:output-changed-after-the-call-returned',
                                'detail': 'output was %s bytes when run() raised, %s bytes after the workers ran on; schedule tail: %s'
                                          % (None if S.file_at_return is None else len(S.file_at_return), None if now is None else len(now), sched_txt)})
            if len(bad) > 3:
                break
            continue
        if case.get('fail_at') is not None:
            faults += getattr(S, 'injected_write_faults', 0)
            if not getattr(S, 'injected_write_faults', 0):
                pass                                  # the file has fewer writes than that under this schedule: nothing was injected
            elif S.deadlock:
                bad.append({'sig': 'pipeline:write-failure:call-never-returns', 'detail': 'write %d of the output raised OSError; afterwards no thread can run and run() has not returned; blocked: %s; schedule tail: %s'
                            % (case['fail_at'], getattr(S, 'blocked', None), sched_txt)})
            elif err is None:
                bad.append({'sig': 'pipeline:write-failure:not-reported', 'detail': 'write %d of the output raised OSError but run() returned normally; schedule tail: %s' % (case['fail_at'], sched_txt)})
            elif S.writes_after_return:
                bad.append({'sig': 'pipeline:write-failure:write-after-return', 'detail': '%s; schedule tail: %s' % (S.writes_after_return[:3], sched_txt)})
            if len(bad) > 3:
                break
            continue
        if S.deadlock:
            bad.append({'sig': 'pipeline:deadlock', 'detail': 'no enabled thread with run() unfinished; blocked: %s; schedule tail: %s' % (getattr(S, 'blocked', None), sched_txt)})
        elif err is not None:
            bad.append({'sig': 'pipeline:raises-%s' % type(err).__name__, 'detail': '%r; schedule tail: %s' % (err, sched_txt)})
        else:
            got = open(out, 'rb').read()
            if S.writes_after_return:
                bad.append({'sig': 'pipeline:write-after-return', 'detail': '%s; schedule tail: %s' % (S.writes_after_return[:3], sched_txt)})
                got = None
            if got is not None and got != ref:
                k = next((i for i, (x, y) in enumerate(zip(got, ref)) if x != y), min(len(got), len(ref)))
                bad.append({'sig': 'pipeline:output-differs-from-sequential-file', 'detail': 'lengths %d vs %d, first difference at byte %d; schedule tail: %s'
                            % (len(got), len(ref), k, sched_txt)})
            wo = check_write_order(rec, S, len(ref))
            if wo:
                bad.append({'sig': 'pipeline:write-order', 'detail': '%s; schedule tail: %s' % (wo[0], sched_txt)})
        if len(bad) > 3:
            break
        if case['mode'] == 'dfs':
            # deepest decision whose state still has an untaken enabled choice
            nxt = None
            for k in range(len(path) - 1, -1, -1):
                st = path[k][0]
                un = sorted(enabled_at[st] - visited[st])
                if un:
                    nxt = [p[1] for p in path[:k]] + [un[0]]
                    break
            if nxt is None:
                complete = True
                break
            prefix = nxt
    strata = ['route:' + case['route'], 'ps:%d' % case['ps'], 'cap:%d' % case['cap'], 'mode:' + case['mode'], 'layout:' + ('blocks' if case['blocks'] else 'sets')]
    if complete:
        strata.append('dfs-complete')
    if case.get('fail_at') is not None:
        strata.append('write-fault')
    if case.get('fail_put') is not None:
        strata.append('producer-fault')
    if own_cap:
        # the converter derived this capacity itself (from the memory it was told the machine has) and passed it down as queue_size
        strata.append('library-derived-cap:%d' % case['cap'])
    counters = {'executions': n_exec, 'abstract_states': len(visited), 'transitions': len(transitions), 'distinct_schedules': len(schedules),
                'schedule_len_max': maxlen, 'virtual_timeouts_fired': virt[0], 'timed_condition_waits': virt[1], 'polling_observations': virt[2], 'dfs_complete': 1 if complete else 0, 'dfs_incomplete': 1 if case['mode'] == 'dfs' and not complete else 0, 'write_faults_injected': faults, 'producer_faults_injected': pfaults}
    return {'violations': bad, 'counters': counters, 'strata': strata, 'key': case['id'], 'nontrivial': n_exec > 0,
            'summary': {'id': case['id'], 'executions': n_exec, 'states': len(visited), 'transitions': len(transitions), 'schedules': len(schedules),
                        'complete': complete, 'wall': round(time.time() - t_start, 1)}}


def sample_view(case, res):
    return (res or {}).get('summary', {'id': case['id']})


def finalize(tier, cases, results, counters, strata):
    reasons = []
    need = ['route:numpy', 'route:segy', 'route:segy-thorough', 'route:2d', 'ps:1', 'ps:2', 'ps:3', 'cap:1', 'cap:2', 'cap:16', 'mode:dfs', 'mode:random', 'mode:pct',
            'dfs-complete', 'layout:blocks', 'library-derived-cap:1', 'library-derived-cap:2', 'library-derived-cap:16', 'write-fault', 'producer-fault']
    for s in need:
        if s not in strata:
            reasons.append('required stratum not hit: ' + s)
    if counters.get('write_faults_injected', 0) == 0:
        reasons.append('no write failure was injected')
    summ = [r.get('summary') for r in results.values() if r.get('summary')]
    dfs12 = [s for s in summ if ':dfs' in s['id'] and (':ps1:' in s['id'] or ':ps2:' in s['id']) and ':sets:' in s['id']]
    extra = {'states': counters.get('abstract_states', 0), 'transitions': counters.get('transitions', 0),
             'distinct_nontrivial_schedules': counters.get('distinct_schedules', 0), 'per_configuration': summ[:80]}
    if dfs12 and all(s['complete'] for s in dfs12):
        extra['exhaustive'] = True
        extra['exhaustive_scope'] = ('state-graph DFS completed for every 1-2 plane-set configuration (%d configurations): every enabled choice of every reached '
                                     'abstract state was executed; 3 plane sets and per-block layouts are sampled unless listed complete' % len(dfs12))
    else:
        reasons.append('DFS did not complete for some 1-2 plane-set configuration: %s' % [s['id'] for s in dfs12 if not s['complete']][:5])
    return extra, reasons

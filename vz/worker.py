"""Worker process: runs a shard of cases of one property, one JSON result line per case.
A `start` line precedes every case so that a native crash is attributed to the case in flight."""
import faulthandler
import importlib
import json
import os
import random
import sys
import time
import traceback
import warnings

warnings.filterwarnings('ignore')


def classify_exception(tb_text, repo):
    """An exception escaping a case: raised under the repository's package = behaviour of the code
    under observation (a violation unless the case expected it); otherwise a harness error."""
    return ('%s/seismic_zfp/' % repo) in tb_text


def die_with_parent():
    """A worker must not outlive its driver (killed run, timeout of the caller)."""
    try:
        import ctypes
        import signal
        ctypes.CDLL('libc.so.6', use_errno=True).prctl(1, signal.SIGKILL)      # PR_SET_PDEATHSIG
        if os.getppid() == 1:
            os._exit(0)
    except Exception:  # noqa
        pass


def main():
    die_with_parent()
    prop, cases_path, out_path = sys.argv[1:4]
    case_timeout = float(sys.argv[4]) if len(sys.argv) > 4 else 300.0
    from . import env
    mod = importlib.import_module('vz.props.' + prop.lower())
    cases = json.load(open(cases_path))
    scratch = env.Scratch(prefix='vz-%s-' % prop)
    ctx = {'scratch': scratch, 'tier': os.environ.get('VERIF_TIER', 'quick')}
    out = open(out_path, 'a')
    faulthandler.enable()
    try:
        if hasattr(mod, 'worker_init'):
            mod.worker_init(ctx)
        for case in cases:
            out.write(json.dumps({'start': case['id']}) + '\n')
            out.flush()
            faulthandler.dump_traceback_later(case_timeout, exit=True)
            t0 = time.time()
            ctx['rng'] = random.Random('%s/%s' % (case.get('seed', 0), case['id']))
            try:
                res = mod.run_case(case, ctx) or {}
            except BaseException as e:   # noqa
                tb = traceback.format_exc()
                if isinstance(e, KeyboardInterrupt):
                    raise
                if classify_exception(tb, env.REPO):
                    last = [l for l in tb.splitlines() if 'seismic_zfp/' in l]
                    where = last[-1].strip().split('/')[-1] if last else '?'
                    where = where.split(',')[0].replace('"', '') + ':' + where.split(' in ')[-1]
                    res = {'violations': [{'sig': 'unexpected-exception:%s@%s' % (type(e).__name__, where),
                                           'detail': tb[-1500:]}]}
                else:
                    res = {'violations': [], 'harness_error': tb[-3000:]}
            faulthandler.cancel_dump_traceback_later()
            res['id'] = case['id']
            res['wall'] = round(time.time() - t0, 3)
            out.write(json.dumps(res, default=str) + '\n')
            out.flush()
            scratch.clear()
        out.write(json.dumps({'done': True}) + '\n')
        out.flush()
    finally:
        scratch.cleanup()


if __name__ == '__main__':
    main()

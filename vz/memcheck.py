"""valgrind memcheck around a bounded workload; only errors with a frame in libzfp / zfpy are counted
(CPython / numpy start-up noise is ignored by that filter)."""
import os
import subprocess
import tempfile
import xml.etree.ElementTree as ET

from . import env


def run_workload(name, pin_dir, timeout=3000):
    xmlf = tempfile.NamedTemporaryFile(prefix='vz-memcheck-', suffix='.xml', delete=False).name
    e = env.child_env(pin_dir, {'PYTHONMALLOC': 'malloc'})
    cmd = ['valgrind', '--tool=memcheck', '--xml=yes', '--xml-file=' + xmlf, '--num-callers=40', '--error-limit=no', '--leak-check=no',
           '--undef-value-errors=yes', env.PY, '-m', 'vz.memwork', name]
    try:
        p = subprocess.run(cmd, capture_output=True, text=True, env=e, cwd=env.VERIF, timeout=timeout)
        out = {'rc': p.returncode, 'done': 'WORKLOAD-DONE' in p.stdout, 'stdout_tail': p.stdout[-300:], 'stderr_tail': p.stderr[-300:]}
        errs, total = [], 0
        try:
            root = ET.parse(xmlf).getroot()
            for er in root.iter('error'):
                total += 1
                frames = [((f.findtext('obj') or ''), (f.findtext('fn') or '')) for f in er.iter('frame')]
                if (er.findtext('kind') or '').startswith('Leak_'):
                    continue              # module-initialisation allocations; not memory safety
                if any('zfp' in o.lower() for o, _ in frames):
                    errs.append({'kind': er.findtext('kind'), 'what': (er.findtext('what') or er.findtext('xwhat/text') or '')[:120],
                                 'frames': ['%s:%s' % (os.path.basename(o), fn) for o, fn in frames[:8]]})
        except ET.ParseError as ex:
            out['xml_error'] = str(ex)
        out['errors_in_codec'] = errs
        out['errors_total'] = total
        return out
    finally:
        try:
            os.remove(xmlf)
        except OSError:
            pass

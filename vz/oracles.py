"""Executable oracles. Nothing here imports seismic_zfp.

O-ZFP   codec image of an array under fixed-rate ZFP, per 4^d cell (block independent)
O-SPEC  decoder written from docs/file-specification.md alone (struct + zfpy per block)
W-SPEC  writer written from the specification alone
"""
import itertools
import struct

import numpy as np
import zfpy

ZT = zfpy.dtype_to_ztype(np.dtype('float32'))
DISK = 4096

# the 89 SEG-Y trace header field offsets (segyio.tracefield order) - part of the specification
KEYS = [1, 5, 9, 13, 17, 21, 25, 29, 31, 33, 35, 37, 41, 45, 49, 53, 57, 61, 65, 69, 71, 73, 77, 81, 85, 89, 91,
        93, 95, 97, 99, 101, 103, 105, 107, 109, 111, 113, 115, 117, 119, 121, 123, 125, 127, 129, 131, 133, 135,
        137, 139, 141, 143, 145, 147, 149, 151, 153, 155, 157, 159, 161, 163, 165, 167, 169, 171, 173, 175, 177,
        179, 181, 185, 189, 193, 197, 201, 203, 205, 209, 211, 213, 215, 217, 219, 223, 225, 229, 231]
assert len(KEYS) == 89
# byte width of each field (next offset - this offset; last is 2)
WIDTH = {k: (KEYS[i + 1] - k if i + 1 < len(KEYS) else 2) for i, k in enumerate(KEYS)}

VALID_RATES = [0.25, 0.5, 1, 2, 4, 8, 16, 32]


def pad(n, m):
    return -(-n // m) * m


def pad_array(arr, multiples, mode='edge'):
    w = [(0, pad(s, m) - s) for s, m in zip(arr.shape, multiples)]
    if mode == 'edge':
        return np.ascontiguousarray(np.pad(arr, w, 'edge'), dtype=np.float32)
    return np.ascontiguousarray(np.pad(arr, w, 'constant'), dtype=np.float32)


def encode(P, rate):
    P = np.ascontiguousarray(P, dtype=np.float32)
    assert all(s % 4 == 0 for s in P.shape), P.shape
    return bytes(zfpy.compress_numpy(P, rate=rate, write_header=False))


def decode(buf, shape, rate):
    need = cell_bits(rate, len(shape)) * int(np.prod([s // 4 for s in shape])) // 8
    if len(buf) < need:
        raise ValueError('short buffer for decode: %d < %d' % (len(buf), need))
    return zfpy._decompress(bytes(buf), ZT, tuple(int(s) for s in shape), rate=rate)


def cell_bits(rate, ndim):
    return int(round(rate * 4 ** ndim))


def codec_min_ok(rate, ndim):
    """libzfp's float32 minimum is 9 bits per cell; below it the stream is longer than rate*4^d."""
    return cell_bits(rate, ndim) >= 9


def image(arr, rate, mode='edge'):
    """D_r(E_r(X4(arr)))[real extent]; whole-array call, equal to the per-cell image
    (validated by validate_codec on every run)."""
    P = pad_array(arr, (4,) * arr.ndim, mode)
    dec = decode(encode(P, rate), P.shape, rate)
    return np.ascontiguousarray(dec[tuple(slice(0, s) for s in arr.shape)])


class CellStream:
    """Per-cell compressed bytes of a padded array (cells in C order over the cell grid)."""

    def __init__(self, P, rate):
        self.P = P
        self.rate = rate
        self.grid = tuple(s // 4 for s in P.shape)
        self.cb = cell_bits(rate, P.ndim) // 8
        assert cell_bits(rate, P.ndim) % 8 == 0
        self.stream = encode(P, rate)

    def cell(self, idx):
        k = 0
        for i, g in zip(idx, self.grid):
            k = k * g + i
        return self.stream[k * self.cb:(k + 1) * self.cb]


def validate_codec(rng, n=6):
    """The codec fact the oracles rest on: fixed-rate ZFP codes every 4^d cell independently in
    exactly rate*4^d bits.  Returns list of failures (empty = fact holds on the sample)."""
    bad = []
    for _ in range(n):
        nd = rng.choice([2, 3])
        rates = [r for r in VALID_RATES if codec_min_ok(r, nd)]
        rate = rng.choice(rates)
        shape = tuple(4 * rng.randint(1, 3) for _ in range(nd))
        a = (np.random.default_rng(rng.randrange(1 << 30)).standard_normal(shape) * 100).astype(np.float32)
        cs = CellStream(a, rate)
        whole = decode(cs.stream, shape, rate)
        for idx in itertools.product(*[range(g) for g in cs.grid]):
            sl = tuple(slice(4 * i, 4 * i + 4) for i in idx)
            one = encode(a[sl], rate)
            if one[:cs.cb] != cs.cell(idx):
                bad.append(('bytes', shape, rate, idx))
            d1 = decode(one, (4,) * nd, rate)
            if d1.tobytes() != np.ascontiguousarray(whole[sl]).tobytes():
                bad.append(('image', shape, rate, idx))
    return bad


# ---------------------------------------------------------------------------------------------
# version encoding, from the specification / property text (mixed radix)

def enc_version(major, minor, patch, released=True):
    return major * 2 ** 21 + minor * 2 ** 11 + patch * 2 + (1 if released else 0)


def dec_version(code):
    return code >> 21, (code >> 11) & 1023, (code >> 1) & 1023, bool(code & 1)


def u32(b, o):
    return struct.unpack_from('<I', b, o)[0]


def i32(b, o):
    return struct.unpack_from('<i', b, o)[0]


class SpecError(Exception):
    pass


class Spec:
    """O-SPEC: everything a reader can know about an SGZ file, from the specification alone."""

    def __init__(self, path=None, raw=None):
        self.raw = raw if raw is not None else open(path, 'rb').read()
        b = self.raw
        if len(b) < 8192:
            raise SpecError('file shorter than the 8 KiB header')
        self.nhb = u32(b, 0)
        self.ns, self.nxl, self.nil = u32(b, 4), u32(b, 8), u32(b, 12)
        self.t0, self.xl0, self.il0 = i32(b, 16), i32(b, 20), i32(b, 24)
        self.dt, self.xlstep, self.ilstep = i32(b, 28), i32(b, 32), i32(b, 36)
        r = i32(b, 40)
        self.rate_raw = r
        self.rate = (1.0 / -r) if r < 0 else r
        self.bs = (u32(b, 44), u32(b, 48), u32(b, 52))
        if self.bs[2] == 0 and self.rate:
            self.bs = (4, 4, int(2048 // self.rate))       # pre-blockshape files
        self.ndb, self.hlen, self.narr, self.ntr_field = u32(b, 56), u32(b, 60), u32(b, 64), u32(b, 68)
        self.vcode = u32(b, 72)
        self.version = dec_version(self.vcode)
        self.source_code, self.detect_code = u32(b, 76), u32(b, 80)
        self.z0_f64, self.dz_f64 = struct.unpack_from('<dd', b, 84)
        self.hash = b[960:980]
        self.table = [struct.unpack_from('<iii', b, 980 + 12 * r_) for r_ in range(89)]
        self.file_header = b[4096:4096 + 3600]
        self.is2d = self.bs[0] == 1
        self.data0 = DISK * self.nhb
        v = self.version[:3] + (1 if self.version[3] else 0,)
        self.post_021 = v > (0, 2, 1, 1)
        self.post_016 = v > (0, 1, 6, 1)
        self.stride = pad(self.hlen, 512) if self.post_021 else self.hlen
        if self.is2d:
            self.ntr = self.ntr_field
            self.grid_traces = self.ntr
        else:
            self.grid_traces = self.nil * self.nxl
            self.ntr = self.ntr_field if self.post_021 else self.grid_traces
        # files older than the published header layout carry no size fields: derive them
        self.legacy = self.ndb == 0
        self.ndb_eff = self.expected_ndb() if self.legacy else self.ndb
        self.footer0 = self.data0 + DISK * self.ndb_eff
        self.stored = [row[0] for row in self.table if row[2] == row[0] and row[1] == 0 and row[0] != 0]

    # geometry -------------------------------------------------------------------------------
    @property
    def shape(self):
        return (self.ntr, self.ns) if self.is2d else (self.nil, self.nxl, self.ns)

    @property
    def padded(self):
        if self.is2d:
            return (pad(self.ntr, self.bs[1]), pad(self.ns, self.bs[2]))
        return tuple(pad(s, b) for s, b in zip(self.shape, self.bs))

    @property
    def bshape(self):
        return self.bs[1:] if self.is2d else self.bs

    @property
    def bgrid(self):
        return tuple(p // b for p, b in zip(self.padded, self.bshape))

    def expected_ndb(self):
        return int(np.prod(self.bgrid))

    def ilines(self):
        return self.il0 + self.ilstep * np.arange(self.nil)

    def xlines(self):
        return self.xl0 + self.xlstep * np.arange(self.nxl)

    def samples(self):
        if self.dz_f64 != 0:
            return self.z0_f64 + (self.dz_f64 / 1000.0) * np.arange(self.ns)
        dt = self.dt / 1000.0 if (self.post_016 or self.is2d) else float(self.dt)
        return self.t0 + dt * np.arange(self.ns)

    # samples --------------------------------------------------------------------------------
    def block(self, k):
        blk = self.raw[self.data0 + DISK * k:self.data0 + DISK * (k + 1)]
        if len(blk) != DISK:
            raise SpecError('block %d truncated' % k)
        return blk

    def decode_padded(self):
        bsh, out, k = self.bshape, np.zeros(self.padded, np.float32), 0
        for idx in itertools.product(*[range(g) for g in self.bgrid]):
            sl = tuple(slice(i * b, (i + 1) * b) for i, b in zip(idx, bsh))
            out[sl] = decode(self.block(k), bsh, self.rate)
            k += 1
        self.nblocks = k
        return out

    def decode(self):
        P = self.decode_padded()
        return np.ascontiguousarray(P[tuple(slice(0, s) for s in self.shape)])

    def blocks_for_box(self, box):
        """Set of disk-block indices holding a cell that intersects box = ((lo,hi),...) per axis."""
        bsh, grid = self.bshape, self.bgrid
        rngs = [range(lo // b, (hi - 1) // b + 1) for (lo, hi), b in zip(box, bsh)]
        out = set()
        for idx in itertools.product(*rngs):
            k = 0
            for i, g in zip(idx, grid):
                k = k * g + i
            out.add(k)
        return out

    # headers --------------------------------------------------------------------------------
    def array(self, j):
        off = self.footer0 + j * self.stride
        a = self.raw[off:off + self.hlen]
        if len(a) != self.hlen:
            raise SpecError('header array %d truncated' % j)
        return np.frombuffer(a, dtype='<i4')

    def arrays(self):
        return {k: self.array(j) for j, k in enumerate(self.stored)}

    def expected_length(self):
        return self.footer0 + len(self.stored) * self.stride

    def field_source(self):
        """key -> ('const', v) | ('array', stored_key)"""
        out = {k: ('const', 0) for k in KEYS}
        for key, const, dup in self.table:
            if key == 0:
                continue                      # legacy files: empty table
            if dup == key and const == 0:
                out[key] = ('array', key)
            elif dup != 0 and const == 0:
                out[key] = ('array', dup)
            else:
                out[key] = ('const', const)
        return out

    def mask(self):
        """Irregular 3D files: populated grid positions are those with a non-zero inline number."""
        arrs = self.arrays()
        return arrs[189] != 0

    def header(self, i, arrs=None, grid_index=None):
        arrs = self.arrays() if arrs is None else arrs
        pos = i if grid_index is None else grid_index
        h = {}
        for key, (kind, v) in self.field_source().items():
            h[key] = int(v) if kind == 'const' else int(arrs[v][pos])
        return h


# ---------------------------------------------------------------------------------------------
# W-SPEC

def write_sgz(path, cube, rate, bs, ilines=None, xlines=None, t0_ms=0, dt_us=4000, arrays=None, consts=None,
              dups=None, version=(0, 2, 9), released=True, tracecount=None, filehdr=None, source_code=20,
              detect_code=0, hash_bytes=None, pad_mode='edge', f64=None):
    """Build an SGZ file from the specification.  cube: (nI,nX,nZ) float32 or (nT,nZ) for 2D
    (bs[0] == 1).  arrays: {key: int array over grid traces} stored in table order.
    f64 = (first sample, increment) in ms as floats: the float64 sample-axis fields (bytes 84-99, increment in us) that
    files converted from ZGY carry and that take precedence over the integer fields."""
    arrays = dict(arrays or {})
    consts, dups = dict(consts or {}), dict(dups or {})
    is2d = cube.ndim == 2
    if tuple(version) + (1 if released else 0,) <= (0, 1, 6, 1) and not is2d:
        dt_us = dt_us // 1000          # files up to 0.1.6 store the sample interval in milliseconds
    bsh = tuple(bs[1:]) if is2d else tuple(bs)
    P = pad_array(cube, bsh, pad_mode)
    blocks = []
    for idx in itertools.product(*[range(s // b) for s, b in zip(P.shape, bsh)]):
        sl = tuple(slice(i * b, (i + 1) * b) for i, b in zip(idx, bsh))
        c = encode(P[sl], rate)
        assert len(c) == DISK, (len(c), bsh, rate)
        blocks.append(c)
    h = bytearray(8192)
    if is2d:
        nT, nZ = cube.shape
        struct.pack_into('<II', h, 0, 2, nZ)
        struct.pack_into('<i', h, 16, int(t0_ms))
        struct.pack_into('<i', h, 28, int(dt_us))
        grid = nT
        ntr = nT
    else:
        nI, nX, nZ = cube.shape
        ilines = np.arange(nI) if ilines is None else np.asarray(ilines)
        xlines = np.arange(nX) if xlines is None else np.asarray(xlines)
        struct.pack_into('<IIII', h, 0, 2, nZ, nX, nI)
        struct.pack_into('<iiiiii', h, 16, int(t0_ms), int(xlines[0]), int(ilines[0]), int(dt_us),
                         int(xlines[1] - xlines[0]) if nX > 1 else 1, int(ilines[1] - ilines[0]) if nI > 1 else 1)
        grid = nI * nX
        ntr = grid if tracecount is None else tracecount
    struct.pack_into('<i', h, 40, int(rate) if rate >= 1 else -int(round(1 / rate)))
    struct.pack_into('<III', h, 44, *bs)
    struct.pack_into('<IIII', h, 56, len(blocks), 4 * grid, len(arrays), ntr)
    struct.pack_into('<I', h, 72, enc_version(*version, released=released))
    struct.pack_into('<II', h, 76, source_code, detect_code)
    if f64 is not None:
        struct.pack_into('<dd', h, 84, float(f64[0]), float(f64[1]) * 1000.0)
    if hash_bytes:
        h[960:980] = hash_bytes
    for r, k in enumerate(KEYS):
        if k in arrays:
            row = (k, 0, k)
        elif k in dups:
            row = (k, 0, dups[k])
        else:
            row = (k, consts.get(k, 0), 0)
        struct.pack_into('<iii', h, 980 + 12 * r, *row)
    if filehdr:
        h[4096:4096 + 3600] = filehdr
    padded = tuple(version) + (1 if released else 0,) > (0, 2, 1, 1)
    with open(path, 'wb') as f:
        f.write(h)
        for b in blocks:
            f.write(b)
        for k in KEYS:
            if k in arrays:
                a = np.ascontiguousarray(np.asarray(arrays[k]).reshape(-1), dtype='<i4').tobytes()
                assert len(a) == 4 * grid
                if padded:
                    a += bytes(-len(a) % 512)
                f.write(a)
    return path

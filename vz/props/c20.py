"""C20 source-data hash: stored hash vs an independent SHA-1 of the source samples in trace order."""
import hashlib
import random

import numpy as np

from .. import conv, env, gen, oracles

ID, TITLE, LEVEL = 'C20', 'source-data hash', 'exploration'
RULE = ('case = one source (3D via NumPy / segyio / reduced-I/O, irregular, 2D) converted under several (rate, blockshape) '
        'settings: every stored hash (bytes 960-979 and get_source_data_hash()) must equal hashlib.sha1 of the source\'s '
        'real float32 samples in trace order (irregular: all settings must agree and perturbations must change it); one '
        'sample is then perturbed by one bit at a stratified position {first, last, last of a partial plane set / trace '
        'group, random} and the hash must change to the new SHA-1; 2-bit default-layout files are re-blocked and must '
        'keep the hash. distinct = (geometry, shape residues, settings, perturbation position); non-trivial = >= 2 '
        'conversions compared')
ASSUMPTIONS = ['hashlib.sha1 is the reference; source samples are those segyio reads from the generated file']


def cases(tier, seed):
    rng = random.Random('C20/%s' % seed)
    out = []
    n = 102 if tier == 'quick' else 600
    set3 = [(4, (4, 4, -1)), (2, (4, 4, -1)), (8, (8, 8, -1)), (2, (64, 64, 4)), (1, (4, 4, -1)), (16, (4, 4, -1)), (4, (4, 16, -1)),
            (0.5, (4, 4, -1)), (32, (16, 16, 4)), (8, (16, 4, -1))]
    set2 = [(4, (1, 16, -1)), (8, (1, 4, -1)), (2, (1, 64, -1)), (1, (1, 256, 128)), (16, (1, 16, -1)), (4, (1, 4, -1)), (8, (1, 32, -1))]
    for i in range(n):
        geom = ['3d', '3d', '2d', 'irregular', 'numpy', '2d'][i % 6]
        if geom == '2d':
            nT = rng.choice([2, 5, 15, 16, 17, 33, 40, 63, 65, 130])
            src = conv.src_desc(rng, '2d', (nT, rng.choice([3, 10, 31])), how2d=rng.choice(['nonumbers', 'single-inline', 'single-crossline', 'single-inline-gathers']),
                                hdr={'seed': 1, 'nfields': 1, 'inside': True}, valkind=rng.choice(['smooth', 'noise', 'zeros', 'const']))
            settings = rng.sample(set2, 3)
        else:
            nI, nX = rng.choice([(5, 5), (9, 7), (8, 8), (4, 17), (13, 3), (6, 10), (17, 18)])
            kw = {}
            gap = False
            if geom == 'irregular':
                # (line numbering from 0 included: the hash is decided at conversion time, the reading of such files - C08's known finding - is not involved)
                kw = {'holes': conv.pick_holes(rng, nI, nX), 'il': [rng.choice([0, 1, 5]), rng.choice([1, 2])], 'xl': [rng.choice([0, 1, 20, -30]), rng.choice([1, 3])]}
                if i % 12 == 3 and nI >= 5:
                    # a whole inline (the second one) was never acquired: the numbering has a gap right after the first line
                    gh = gap_holes(rng, nI, nX)
                    if gh:
                        kw['holes'], gap = gh, True
            src = conv.src_desc(rng, geom, (nI, nX, rng.choice([3, 10, 31])), hdr={'seed': 1, 'nfields': 1, 'inside': True},
                                valkind=rng.choice(['smooth', 'noise', 'zeros', 'const', 'neg']), **kw)
            settings = rng.sample(set3, 3)
            if i % 5 == 0 and (2, (4, 4, -1)) not in settings:
                settings[0] = (2, (4, 4, -1))
        if geom == '3d' and i % 12 == 7:
            src['sorting'] = 1      # crossline-sorted file: every route reads (and hashes) it inline by inline, i.e. the inline-major cube
        if geom in ('3d', '2d') and i % 5 == 2:
            src['fmt'] = [3, 2, 8][(i // 5) % 3]          # integer sample formats: the hash is still over the float32 samples
        out.append({'id': '%s:%d' % (geom, i), 'src': src, 'settings': [[r, list(b)] for r, b in settings],
                    'detection': ['heuristic', 'strip', 'thorough', 'exhaustive'][(i // 6) % 4] if geom in ('3d', '2d') else 'heuristic',
                    'where': ['first', 'last', 'partial', 'random'][i % 4], 'cost': 2, 'gap': geom == 'irregular' and gap})
    # alignment family: every pattern of {axis is / is not a multiple of the resolved blockshape} relative to the first setting,
    # every detection mode, every route (the padded buffer equals the real extent on the aligned axes)
    m = 0
    for rep in range(1 if tier == 'quick' else 4):
        for pat in range(8):
            for geom in ('3d', 'numpy', '2d', 'irregular'):
                if geom == '2d':
                    r, b = set2[(pat + m) % len(set2)]
                    b = conv.resolve_bs(r, b)
                    k = 1 + (m % 2)
                    nT = b[1] * k if pat & 2 else b[1] * (k - 1) + 1 + rng.randrange(b[1] - 1)
                    nT = max(nT, 2)
                    nZ = b[2] if pat & 4 else rng.choice([3, b[2] - 1, b[2] + 1])
                    src = conv.src_desc(rng, '2d', (nT, nZ), how2d=['nonumbers', 'single-inline', 'single-crossline'][m % 3],
                                        hdr={'seed': 1, 'nfields': 1, 'inside': True}, valkind='smooth')
                    settings = [(r, b)] + rng.sample(set2, 2)
                else:
                    r, b = set3[(pat + m) % len(set3)]
                    b = conv.resolve_bs(r, b)
                    nI = b[0] * (1 + m % 2) if pat & 1 else b[0] * (m % 2) + 1 + rng.randrange(b[0] - 1)
                    nX = b[1] if pat & 2 else b[1] * (m % 2) + 1 + rng.randrange(b[1] - 1)
                    nZ = b[2] if pat & 4 else rng.choice([3, b[2] - 1, b[2] + 1])
                    nI, nX = max(nI, 2), max(nX, 2)
                    while nI * nX * nZ > 300000 and nI > 2:
                        nI = max(2, nI - b[0])
                    kw = {}
                    if geom == 'irregular':
                        nI, nX = max(nI, 3), max(nX, 3)
                        kw = {'holes': conv.pick_holes(rng, nI, nX), 'il': [rng.choice([1, 5]), rng.choice([1, 2])], 'xl': [rng.choice([1, 20]), rng.choice([1, 3])]}
                    src = conv.src_desc(rng, geom, (nI, nX, nZ), hdr={'seed': 1, 'nfields': 1, 'inside': True}, valkind='smooth', **kw)
                    settings = [(r, b)] + rng.sample(set3, 2)
                out.append({'id': 'aligned:%s:%d:%d' % (geom, pat, rep), 'src': src, 'settings': [[r_, list(b_)] for r_, b_ in settings],
                            'detection': ['heuristic', 'strip', 'thorough', 'exhaustive'][m % 4] if geom in ('3d', '2d') else 'heuristic',
                            'pattern': pat, 'window': geom == '3d' and m % 3 == 0, 'cli': geom == '3d' and m % 4 == 1,
                            'where': ['first', 'last', 'partial', 'random'][m % 4], 'cost': 3})
                m += 1
    # generated ZGY sources through ZgyConverter: hash of the float32 samples pyzgy reads
    for j in range(8 if tier == 'quick' else 48):
        nI, nX = rng.choice([(5, 5), (9, 7), (8, 8), (4, 17), (6, 10), (17, 18)])
        out.append({'id': 'zgy:%d' % j, 'src': conv.zgy_desc(rng, (nI, nX, rng.choice([3, 10, 31, 64])), valkind=rng.choice(['smooth', 'noise', 'ramp'])), 'settings': [[r, list(b)] for r, b in rng.sample(set3, 3)],
                    'where': ['first', 'last', 'partial', 'random'][j % 4], 'cost': 3})
    return out


def gap_holes(rng, nI, nX):
    for _ in range(50):
        holes = set(conv.pick_holes(rng, nI, nX)) | {nX + x for x in range(nX)}
        present = np.ones((nI, nX), bool)
        present.reshape(-1)[list(holes)] = False
        if present.any(axis=1).sum() != nI - 1 or not present.any(axis=0).all() or present.sum() % present[0].sum() == 0:
            continue
        return sorted(holes)
    return None


def sha(traces):
    return hashlib.sha1(np.ascontiguousarray(traces, dtype=np.float32).tobytes()).hexdigest()


def run_case(case, ctx):
    from seismic_zfp.read import SgzReader
    from seismic_zfp.conversion import SgzConverter
    rng = ctx['rng']
    sc = ctx['scratch']
    geom = case['src']['geom']
    bad, hashes, n = [], {}, 0
    strata_reuse = set()

    # one converter object serving several run() calls (different settings) is ordinary use of the API: the hash of each file
    # must not depend on what the object converted before
    import zlib
    reuse = zlib.crc32(case['id'].encode()) % 2 == 1
    shared = {}

    def converter_for(route, src):
        from seismic_zfp.conversion import NumpyConverter, SegyConverter, ZgyConverter
        if route not in shared:
            if route == 'numpy':
                shared[route] = NumpyConverter(src['data'], ilines=src['ilines'], xlines=src['xlines'], samples=src['samples'], trace_headers={})
            elif route == 'zgy':
                shared[route] = ZgyConverter(src['path'])
            else:
                shared[route] = SegyConverter(src['path'])
        return shared[route]

    def convert_all(src, tag):
        nonlocal n
        got = {}
        shared.clear()
        for rate, bs in case['settings']:
            routes = ['numpy'] if geom == 'numpy' else ['zgy'] if geom == 'zgy' else (['segyio', 'iops'] if geom == '3d' else ['segyio'])
            if case['src'].get('fmt') in (2, 3, 8):
                routes = ['segyio']        # the reduced-I/O reader refuses integer formats by design
            if case.get('cli') and rate >= 1:
                routes = routes + ['cli']
            for route in routes:
                out = sc.file('o-%s-%s-%s.sgz' % (tag, rate, route))
                if reuse and route != 'cli':
                    c_ = converter_for(route, src)
                    with env.quiet():
                        if route == 'numpy':
                            c_.run(out, bits_per_voxel=rate, blockshape=tuple(bs))
                        elif route == 'zgy':
                            c_.run(out, bits_per_voxel=rate, blockshape=tuple(bs))
                        else:
                            c_.run(out, bits_per_voxel=rate, blockshape=tuple(bs), reduce_iops=route == 'iops', header_detection=case.get('detection', 'heuristic'))
                    strata_reuse.add('converter-reused')
                elif route == 'numpy':
                    conv.convert_numpy(src['data'], out, rate, bs, ilines=src['ilines'], xlines=src['xlines'], samples=src['samples'])
                elif route == 'zgy':
                    conv.convert_zgy(src['path'], out, rate, bs)
                elif route == 'cli':
                    conv.convert_cli_inproc(src['path'], out, rate, bs)
                else:
                    conv.convert_segy(src['path'], out, rate, bs, reduce_iops=route == 'iops', detection=case.get('detection', 'heuristic'))
                n += 1
                with SgzReader(out) as r:
                    h = r.get_source_data_hash()
                raw = open(out, 'rb').read(980)[960:980].hex()
                if raw != h:
                    bad.append({'sig': 'hash-accessor-differs-from-bytes-960-979', 'detail': '%s vs %s' % (h, raw)})
                got[(rate, tuple(bs), route)] = h
                if rate == 2 and tuple(bs) == (4, 4, -1) and geom != '2d':
                    o2 = sc.file('adv.sgz')
                    with env.quiet():
                        with SgzConverter(out) as c:
                            c.convert_to_adv_sgz(o2)
                    with SgzReader(o2) as r:
                        if r.get_source_data_hash() != h:
                            bad.append({'sig': 'reblock-changes-hash', 'detail': '%s -> %s' % (h, r.get_source_data_hash())})
        return got

    src = conv.build_source(case['src'], sc)
    if src.get('segyio_structured'):
        return {'nontrivial': False, 'counters': {'skipped_segyio_infers_regular_cube': 1}}
    if geom == 'numpy' or (geom == '3d' and case['src'].get('sorting', 2) != 2):
        T = np.ascontiguousarray(src['data'].reshape(-1, src['data'].shape[-1]))
    else:
        T = src['traces']
    want = sha(T)
    got = convert_all(src, 'a')
    strata = {'sorting:%d' % case['src'].get('sorting', 2), 'geom:' + geom, 'where:' + case['where'], 'detection:' + case.get('detection', 'heuristic'), 'fmt:%s' % case['src'].get('fmt', 5)}
    strata |= strata_reuse
    if 'pattern' in case:
        strata.add('aligned-axes:%s:%d' % ('2d' if geom == '2d' else '3d', case['pattern']))
    if case.get('window') and geom == '3d' and min(src['data'].shape[:2]) >= 3:
        nI, nX, nZ = src['data'].shape
        a = rng.randrange(0, nI - 2)
        b = rng.randrange(a + 2, nI + 1)
        c = rng.randrange(0, nX - 2)
        d = rng.randrange(c + 2, nX + 1)
        # (the window starts at ordinal 0 on one axis for one reader and on the other axis for the other reader)
        rate, bs = case['settings'][0]
        for iops in (False, True):
            a, c = (0, max(c, 1)) if iops else (max(a, 1), 0)
            b, d = max(b, a + 2), max(d, c + 2)
            wantw = sha(src['data'][a:b, c:d].reshape(-1, nZ))
            out = sc.file('w-%s.sgz' % iops)
            conv.convert_segy(src['path'], out, rate, bs, reduce_iops=iops, detection=case.get('detection', 'heuristic'), window=(a, b, c, d))
            n += 1
            with SgzReader(out) as r:
                h = r.get_source_data_hash()
            if h != wantw:
                bad.append({'sig': '3d:window:hash-differs-from-sha1-of-windowed-samples',
                            'detail': 'window %s of %s, reduce_iops=%s: stored %s, sha1 of the windowed traces %s' % ((a, b, c, d), (nI, nX, nZ), iops, h, wantw)})
        strata.add('windowed')
    vals = set(got.values())
    if len(vals) > 1:
        bad.append({'sig': '%s:hash-depends-on-setting' % geom, 'detail': 'same source, hashes %s' % {str(k): v[:10] for k, v in got.items()}})
    if geom != 'irregular' and any(v != want for v in vals):
        k = next(k for k, v in got.items() if v != want)
        bad.append({'sig': '%s:hash-differs-from-sha1-of-source-samples' % geom,
                    'detail': 'setting %s: stored %s, sha1(source samples in trace order) %s; %d traces x %d' % (k, got[k], want, T.shape[0], T.shape[1])})
    # perturb one sample by one bit
    T2 = T.copy()
    nT, nZ = T2.shape
    where = case['where']
    if where == 'first':
        t, z = 0, 0
    elif where == 'last':
        t, z = nT - 1, nZ - 1
    elif where == 'partial':
        # last trace of the file: sits in the partial plane set / trace group when counts are not block multiples
        t, z = nT - 1, rng.randrange(nZ)
    else:
        t, z = rng.randrange(nT), rng.randrange(nZ)
    if case['src'].get('fmt') in (2, 3, 8):
        T2[t, z] += 1 if T2[t, z] < 100 else -1           # integer formats: the smallest representable change
    else:
        v = T2[t:t + 1, z:z + 1].view(np.uint32)
        v ^= np.uint32(1 << rng.randrange(0, 23))
    if geom == 'numpy':
        src2 = dict(src)
        src2['data'] = T2.reshape(src['data'].shape)
    elif geom == 'zgy':
        d = case['src']
        src2 = dict(src)
        src2['path'] = conv.write_zgy(sc.file('pert.zgy'), T2.reshape(src['data'].shape), d['il'], d['xl'], d['z0'], d['dz'], d['corners'])
    else:
        import segyio
        p2 = sc.file('pert.sgy')
        import shutil
        shutil.copy(src['path'], p2)
        xs = geom == '3d' and case['src'].get('sorting', 2) != 2
        nI_, nX_ = (src['data'].shape[:2] if xs else (0, 0))
        with segyio.open(p2, 'r+', strict=False, ignore_geometry=True) as f:
            f.trace[(t % nX_) * nI_ + t // nX_ if xs else t] = T2[t]
        src2 = dict(src)
        src2['path'] = p2
        T2 = gen.source_traces(p2)
        if xs:
            T2 = np.ascontiguousarray(T2.reshape(nX_, nI_, -1).transpose(1, 0, 2).reshape(nI_ * nX_, -1))
        if np.array_equal(T2.view(np.uint32), T.view(np.uint32)):
            return {'violations': bad, 'counters': {'conversions': n, 'perturbation_lost_in_ibm_rounding': 1}, 'strata': sorted(strata), 'key': case['id']}
    if case.get('gap'):
        # one perturbation in every line of the file (first setting, segyio route): no line's samples may be left out of the hash
        import segyio
        import shutil
        rate0, bs0 = case['settings'][0]
        h0 = got[(rate0, tuple(bs0), 'segyio')]
        for li in sorted({i_ for i_, _ in src['positions']}):
            tl = next(t_ for t_, (i_, _) in enumerate(src['positions']) if i_ == li)
            pl = sc.file('pert-line.sgy')
            shutil.copy(src['path'], pl)
            tr = T[tl].copy()
            tr[:1].view(np.uint32)[0] ^= np.uint32(1 << 20)
            with segyio.open(pl, 'r+', strict=False, ignore_geometry=True) as f:
                f.trace[tl] = tr
            ol = sc.file('o-line.sgz')
            conv.convert_segy(pl, ol, rate0, bs0, detection=case.get('detection', 'heuristic'))
            n += 1
            with SgzReader(ol) as r:
                hl = r.get_source_data_hash()
            if hl == h0:
                bad.append({'sig': 'irregular:hash-unchanged-after-sample-perturbation', 'detail': 'first sample of trace %d (inline index %d of an axis with a missing line) changed: hash still %s' % (tl, li, hl)})
                break
        strata.add('irregular-missing-line')
    got2 = convert_all(src2, 'b')
    want2 = sha(T2)
    for k, h in got2.items():
        if h == got.get(k):
            bad.append({'sig': '%s:hash-unchanged-after-sample-perturbation' % geom, 'detail': 'sample (%d,%d) [%s] changed by one bit, setting %s: hash still %s' % (t, z, where, k, h)})
            break
        if geom != 'irregular' and h != want2:
            bad.append({'sig': '%s:hash-differs-from-sha1-of-source-samples' % geom, 'detail': 'after perturbation, setting %s' % (k,)})
            break
    return {'violations': bad, 'counters': {'conversions': n, 'perturbations': 1}, 'strata': sorted(strata), 'key': case['id'], 'nontrivial': n >= 2}


def finalize(tier, cases, results, counters, strata):
    reasons = []
    need = ['sorting:1', 'converter-reused', 'fmt:1', 'fmt:5', 'fmt:2', 'fmt:3', 'fmt:8', 'geom:3d', 'geom:2d', 'geom:irregular', 'geom:numpy', 'geom:zgy', 'where:first', 'where:last', 'where:partial', 'where:random', 'windowed', 'irregular-missing-line']
    need += ['detection:' + d for d in ('heuristic', 'strip', 'thorough', 'exhaustive')]
    need += ['aligned-axes:%s:%d' % (g, p) for g in ('3d', '2d') for p in range(8)]
    for s in need:
        if s not in strata:
            reasons.append('required stratum not hit: ' + s)
    if counters.get('perturbations', 0) == 0:
        reasons.append('no perturbation run')
    return {}, reasons

"""C06 SEG-Y export round trip."""
import random

import numpy as np
import segyio

from .. import conv, env, gen, oracles
from ..oracles import KEYS

ID, TITLE, LEVEL = 'C06', 'SEG-Y export round trip', 'exploration'
RULE = ('case = one generated SEG-Y (regular ascending/descending, irregular, 2D; IBM/IEEE; header model content; constant '
        'delay recording time) x a valid setting x detection mode, converted and exported through the API or the CLI; segyio on the '
        'export vs segyio on the original: trace count, sample axis, unstructured flag, line axes, first 3600 bytes identical, every '
        'trace header equal for all 89 fields, trace i of the export = trace i of the independent O-SPEC decode of the SGZ bitwise (IEEE) or within relative 2^-20 '
        '(IBM); trace order decided by the per-trace watermark. distinct = (geometry, format, setting, route); non-trivial = export '
        'opened and every trace compared')
ASSUMPTIONS = ['segyio opens both files (strict=False)']

WITNESS = [{'id': 'witness:extended-text-headers', 'src': {'geom': '3d', 'shape': [4, 5, 6], 'il': [1, 1], 'xl': [1, 1], 'dt': 4000, 't0': 0, 'fmt': 5, 'ext': 1,
                                                          'cubeseed': 1, 'valkind': 'smooth', 'hdr': {'seed': 1, 'nfields': 1, 'inside': True}, 'sorting': 2},
            'rate': 4, 'bs': [4, 4, -1], 'detection': 'thorough', 'route': 'api', 'cost': 1}]


def cases(tier, seed):
    rng = random.Random('C06/%s' % seed)
    out = [dict(w) for w in WITNESS]
    n = 120 if tier == 'quick' else 800
    for i in range(n):
        geom = ['3d', '3d', 'irregular', '2d'][i % 4]
        hdr = {'seed': rng.randrange(1 << 20), 'nfields': rng.randint(0, 5), 'inside': True}
        fmt = [1, 5][(i // 4) % 2]
        if geom == '2d':
            src = conv.src_desc(rng, '2d', (rng.choice([2, 5, 17, 40, 128]), rng.choice([4, 9, 20])), how2d=rng.choice(['nonumbers', 'single-inline', 'single-crossline']),
                                hdr=hdr, fmt=fmt, valkind=rng.choice(['smooth', 'noise', 'neg']))
            rate, bs = rng.choice([(4, (1, 16, -1)), (8, (1, 4, -1)), (16, (1, 16, -1))])
            if i % 16 == 3:
                # traces longer than one disk block in the per-trace-group layout
                rate, bs = rng.choice([(16, (1, 4, -1)), (32, (1, 4, -1))])
                src = conv.src_desc(rng, '2d', (rng.choice([6, 9, 13]), rng.choice([600, 1100])), how2d=rng.choice(['nonumbers', 'single-inline', 'single-crossline']),
                                    hdr=hdr, fmt=fmt, valkind='smooth')
        else:
            nI, nX = rng.choice([(5, 5), (8, 9), (3, 13), (9, 4), (6, 6)])
            kw = {}
            if geom == 'irregular':
                kw = {'holes': conv.pick_holes(rng, nI, nX), 'il': [rng.choice([1, 5, 100, -40, -100]), rng.choice([1, 2])], 'xl': [rng.choice([1, 20, -30]), rng.choice([1, 3])]}   # (no inline numbered 0: C08's known finding)
                if i % 8 == 2:
                    # a whole interior line was never acquired and the line increment is not 1
                    ax = (i // 8) % 2
                    mh = conv.missing_line_holes(rng, nI, nX, axis=ax)
                    if mh:
                        kw['holes'] = mh
                        kw['il' if ax == 0 else 'xl'][1] = rng.choice([3, 10])
                        if any(kw['il'][0] + kw['il'][1] * j == 0 for j in range(nI)):
                            kw['il'][0] += 1          # (no inline numbered 0: C08's known finding)
                        kw['missing_line'] = True
            else:
                kw = {'il': [rng.choice([1, 10, -20]), rng.choice([1, 2, -1])], 'xl': [rng.choice([1, 100]), rng.choice([1, 3, -2])]}
            src = conv.src_desc(rng, geom, (nI, nX, rng.choice([4, 9, 20])), hdr=hdr, fmt=fmt, valkind=rng.choice(['smooth', 'noise', 'neg']), **kw)
            rate, bs = rng.choice([(4, (4, 4, -1)), (8, (4, 4, -1)), (16, (4, 4, -1)), (2, (64, 64, 4)), (8, (8, 8, -1)), (1, (4, 4, -1)),
                                   (8, (4, 8, -1)), (8, (8, 4, -1)), (16, (16, 4, -1)), (4, (4, 16, -1)), (32, (4, 4, -1)), (0.5, (4, 4, -1))])
        if i % 7 == 3:
            src['trace_sample_count'] = ['stale', 'vary'][(i // 7) % 2]
        out.append({'id': 'rt:%d:%s:fmt%d' % (i, geom, fmt), 'src': src, 'rate': rate, 'bs': list(bs), 'detection': rng.choice(['thorough', 'exhaustive', 'heuristic']),
                    'route': 'cli' if i % 5 == 0 else 'api', 'cost': 2})
    # directed: unevenly spaced line numbers (inlines 10, 12, 15 and crosslines 20, 23, 24, 26 are what is left of a denser numbering): the
    # grid increment is the one that reaches every number present, not the smallest gap
    for j, (fmt, det) in enumerate([(5, 'thorough'), (1, 'heuristic')]):
        present_il, present_xl = [0, 2, 5], [0, 3, 4, 6]
        holes = [i_ * 7 + x_ for i_ in range(6) for x_ in range(7) if i_ not in present_il or x_ not in present_xl] + [2 * 7 + 3]
        src = conv.src_desc(rng, 'irregular', (6, 7, 9), hdr={'seed': 5 + j, 'nfields': 2, 'inside': True}, fmt=fmt, valkind='smooth', holes=sorted(holes),
                            il=[10, 1], xl=[20, 1], missing_line=True)
        out.append({'id': 'rt:%d:irregular-uneven:fmt%d' % (9000 + j, fmt), 'src': src, 'rate': 8, 'bs': [4, 4, -1], 'detection': det, 'route': 'api', 'cost': 2})
    return out


def run_case(case, ctx):
    from seismic_zfp.read import SgzReader
    from seismic_zfp.conversion import SgzConverter
    sc = ctx['scratch']
    src = conv.build_source(case['src'], sc)
    if src.get('segyio_structured'):
        return {'nontrivial': False, 'counters': {'skipped_segyio_infers_regular_cube': 1}}
    geom = case['src']['geom']
    sgz, exp = sc.file('o.sgz'), sc.file('e.sgy')
    det = case['detection']
    if det == 'heuristic' and not gen.heuristic_precondition(src['headers']):
        # outside the heuristic's stated precondition (e.g. inline and crossline numbers agreeing on the first and on the last trace of a
        # square cube) the SGZ legitimately holds other header values (C04); the round trip is then decided with thorough detection
        det = 'thorough'
    case = dict(case, detection=det)
    # (regular IBM / IEEE sources: every third conversion uses the reduced-I/O reader - the export must not depend on which reader filled the file)
    iops = geom == '3d' and src['fmt'] in (1, 5) and case['id'].split(':')[1].isdigit() and int(case['id'].split(':')[1]) % 3 == 1
    conv.convert_segy(src['path'], sgz, case['rate'], tuple(case['bs']), detection=det, reduce_iops=iops)
    known = 'export:source-with-extended-textual-headers' if case['src'].get('ext', 0) else None
    bad = []
    try:
        if case['route'] == 'api':
            with env.quiet():
                with SgzConverter(sgz) as c:
                    pre = ['none', 'tracefield', 'header', 'samples', 'selective-load', 'none'][int(case['id'].split(':')[1]) % 6 if case['id'].split(':')[1].isdigit() else 0]
                    # the exporter is also a reader: what was read through it before must not change what it exports
                    if pre == 'tracefield':
                        stored = [int(k) for k, v in c.segy_traceheader_template.items() if type(v).__name__ == 'FileOffset']
                        if stored:
                            c.get_tracefield_values(stored[0])
                    elif pre == 'selective-load':
                        # the documented way to load only some header arrays of a large file
                        stored = [segyio.tracefield.TraceField(int(k)) for k, v in c.segy_traceheader_template.items() if type(v).__name__ == 'FileOffset']
                        if stored:
                            c.read_variant_headers(tracefields=stored[:1])
                    elif pre == 'header':
                        c.gen_trace_header(0)
                    elif pre == 'samples':
                        c.get_trace(c.tracecount - 1)
                    c.convert_to_segy(exp)
        else:
            from click.testing import CliRunner
            from seismic_zfp.cli import cli
            res = CliRunner().invoke(cli, ['sgz2sgy', sgz, exp])
            if res.exception is not None and not isinstance(res.exception, SystemExit):
                raise res.exception
            if res.exit_code:
                raise RuntimeError('cli exit %d: %s' % (res.exit_code, res.output[-200:]))
    except Exception as e:  # noqa
        bad.append({'sig': 'export:raises-%s' % type(e).__name__, 'detail': '%s %s: %r' % (geom, case['route'], e)})
    n = 0
    exact = conv.must_be_exact(src, case['detection'])
    if not bad:
        try:
            with segyio.open(src['path'], strict=False) as a, segyio.open(exp, strict=False) as b, SgzReader(sgz) as r:
                if a.tracecount != b.tracecount:
                    bad.append({'sig': 'export:tracecount-differs', 'detail': '%s: original %d export %d' % (geom, a.tracecount, b.tracecount)})
                if len(a.samples) != len(b.samples) or not np.allclose(a.samples, b.samples, rtol=1e-6, atol=1e-6):
                    bad.append({'sig': 'export:sample-axis-differs', 'detail': '%s vs %s' % (a.samples[:3], b.samples[:3])})
                if a.unstructured != b.unstructured:
                    bad.append({'sig': 'export:unstructured-flag-differs', 'detail': '%s: original %s export %s' % (geom, a.unstructured, b.unstructured)})
                elif not a.unstructured:
                    if not (np.array_equal(a.ilines, b.ilines) and np.array_equal(a.xlines, b.xlines)):
                        bad.append({'sig': 'export:line-axes-differ', 'detail': '%s/%s vs %s/%s' % (a.ilines[:3], a.xlines[:3], b.ilines[:3], b.xlines[:3])})
                if open(src['path'], 'rb').read(3600) != open(exp, 'rb').read(3600):
                    bad.append({'sig': 'export:file-header-bytes-differ', 'detail': geom})
                if not bad:
                    T = src['traces']
                    # the values decoded from the SGZ: the independent O-SPEC decode of the file (not the package's own get_trace)
                    spx = oracles.Spec(sgz)
                    Vx = spx.decode()
                    if geom == '2d':
                        decoded = Vx
                    elif geom == 'irregular':
                        decoded = np.stack([Vx[i, x] for i, x in src['positions']])
                    else:
                        decoded = Vx.reshape(-1, Vx.shape[-1])
                    for t in range(a.tracecount):
                        n += 1
                        et = np.asarray(b.trace[t], dtype=np.float32)
                        st = np.ascontiguousarray(decoded[t], dtype=np.float32)
                        if src['fmt'] == 5:
                            ok = et.tobytes() == st.tobytes()
                        else:
                            ok = bool(np.all(np.abs(et - st) <= 2.0 ** -20 * np.abs(st) + 1e-37))
                        if not ok:
                            # which source trace is it closest to (watermark)? distinguishes order from value errors
                            j = int(np.argmin(np.abs(T - et[None, :]).sum(axis=1)))
                            bad.append({'sig': 'export:%s' % ('trace-order' if j != t else 'samples-differ-from-sgz-decode'),
                                        'detail': '%s fmt %d: export trace %d %s' % (geom, src['fmt'], t, 'is source trace %d' % j if j != t else 'differs')})
                            break
                        if exact:
                            hb = b.header[t]
                            diff = [k for k in exact if int(hb[k]) != int(src['headers'][k][t])]
                            if diff:
                                bad.append({'sig': 'export:trace-header-differs', 'detail': '%s trace %d fields %s: %s vs %s'
                                            % (geom, t, diff[:4], [int(hb[k]) for k in diff[:4]], [int(src['headers'][k][t]) for k in diff[:4]])})
                                break
        except Exception as e:  # noqa
            bad.append({'sig': 'export:not-readable-by-segyio-%s' % type(e).__name__, 'detail': '%s: %r' % (geom, e)})
    strata = ['geom:' + geom, 'fmt:%d' % src['fmt'], 'route:' + case['route'], 'detection:' + case['detection']]
    if case['src'].get('missing_line'):
        strata.append('irregular-missing-line')
    if known:
        strata.append('known:' + known)
        if bad:
            bad = [{'sig': known, 'detail': '; '.join(sorted(set(v['sig'] for v in bad)))}]
    return {'violations': bad, 'counters': {'traces_compared': n, 'exports': 1}, 'strata': strata, 'key': case['id'], 'nontrivial': n > 0 or bool(known)}


def finalize(tier, cases, results, counters, strata):
    reasons = []
    for s in ['geom:3d', 'geom:irregular', 'geom:2d', 'fmt:1', 'fmt:5', 'route:api', 'route:cli', 'irregular-missing-line']:
        if s not in strata:
            reasons.append('required stratum not hit: ' + s)
    if counters.get('traces_compared', 0) == 0:
        reasons.append('no exported trace compared')
    return {}, reasons

"""C13 segyio emulation: generated expressions evaluated on segyio.open(sgy) and seismic_zfp.open(sgz)."""
import random

import numpy as np
import segyio

from .. import conv, env, gen, oracles
from ..oracles import KEYS

ID, TITLE, LEVEL = 'C13', 'segyio emulation', 'exploration'
RULE = ('case = one regular SEG-Y (ascending / descending axes, unit / non-unit increments, 5x4x7 .. 9x11x13) and the SGZ made '
        'from it; ~150 (quick) expressions are generated from the grammar of the documented interface (iline[n]/xline[n] present and '
        'absent, line slices with every combination of start/stop/step present with existing bounds and steps multiple of the increment '
        'in axis order, iteration, len, depth_slice/trace/header with ints, negative ints, in-range slices with any non-zero step, '
        'ilines/xlines/samples/tracecount, attributes(f)[...], bin, text[0], tools.dt, tools.cube, subvolume[...]) and evaluated on both '
        'objects; normal forms compared: kind, length, element shapes, dict keys, WHICH line/trace each element is (segyio elements '
        'identified against the watermarked source, SGZ elements against the O-SPEC decode, so SGZ samples must equal the decode), '
        'header values, rejection. distinct = (expression form, axis direction/increment class); non-trivial = every expression')
ASSUMPTIONS = ['segyio is the reference implementation of the interface']


def cases(tier, seed):
    rng = random.Random('C13/%s' % seed)
    out = []
    n = 40 if tier == 'quick' else 240
    # line numbers are kept >= 0: segyio resolves slices through slice.indices(), which reinterprets negative LABELS as
    # positions from the end, so its results on negative line numbers are an artefact rather than a reference
    axes = [((1, 1), (1, 1)), ((10, 2), (100, 5)), ((20, -1), (5, 1)), ((40, -2), (60, -3)), ((5, 1), (30, -1)), ((3, 1), (10, 2)), ((100, 7), (7, 7)), ((0, 1), (0, 1)),
            (('to0', -1), (0, 2)), ((2, 3), ('to0', -2))]
    for i in range(n):
        (il0, ils), (xl0, xls) = axes[i % len(axes)]
        nI, nX, nZ = rng.choice([(5, 4, 7), (9, 11, 13), (6, 6, 8), (4, 9, 5), (8, 5, 12)])
        if i % 8 == 6:
            # header arrays that fill their 512-byte footer pages exactly (trace count a multiple of 128)
            nI, nX, nZ = [(8, 16, 6), (16, 8, 5)][(i // 8) % 2]
        if i % 10 == 9:
            nI, nX, nZ = 6, 19, 9          # (several 16-wide blocks along the crosslines, see below)
        # 'to0': a descending axis whose last line is numbered 0 (0 is an existing coordinate that is not the first one)
        il0 = -ils * (nI - 1) if il0 == 'to0' else il0
        xl0 = -xls * (nX - 1) if xl0 == 'to0' else xl0
        src = conv.src_desc(rng, '3d', (nI, nX, nZ), il=[il0, ils], xl=[xl0, xls], fmt=5, valkind='smooth', dt=rng.choice([4000, 2000, 1000, 1001, 2002, 4004]), t0=rng.choice([0, 8, -8, -4]),
                            hdr={'seed': rng.randrange(1 << 20), 'nfields': rng.randint(1, 3), 'inside': True}, interval_hdr=[None, None, 'bin-zero', 'bin-differs', 'trace-zero'][i % 5])
        if i % 10 == 7:
            src['text_special'] = True
        rate_, bs_ = rng.choice([16, 8, 4]), rng.choice([[4, 4, -1], [4, 4, -1], [8, 8, -1]])
        if i % 5 == 3:
            # traces longer than one disk block of the default layout (depth slices beyond the first block)
            src['shape'] = [src['shape'][0], src['shape'][1], 140]
            rate_, bs_ = 16, [4, 4, -1]
        if i % 10 == 9:
            # z-slice layout with several blocks along the crosslines (depth_slice goes through the block redistribution)
            rate_, bs_ = 32, [16, 16, 4]
        out.append({'id': 'emu:%d:il%+d:xl%+d' % (i, ils, xls), 'src': src, 'nexpr': 150 if tier == 'quick' else 500, 'rate': rate_,
                    'bs': bs_, 'cost': 2})
    return out


def line_exprs(name, axis, rng, n):
    """(expr, form) for f.iline / f.xline."""
    step = int(axis[1] - axis[0])
    ex = []
    for v in axis:
        ex.append(('f.%s[%d]' % (name, v), 'line[present]'))
    for v in (int(axis[-1]) + step, int(axis[0]) - step, int(axis[0]) + 10 ** 5):
        if v < 0:
            continue
        ex.append(('f.%s[%d]' % (name, v), 'line[absent]'))
    if abs(step) > 1:
        ex.append(('f.%s[%d]' % (name, int(axis[0]) + (1 if step > 0 else -1)), 'line[absent]'))
    ex += [('[np.copy(x) for x in f.%s[:]]' % name, 'line[:]'), ('[np.copy(x) for x in f.%s]' % name, 'iter(line)'), ('len(f.%s)' % name, 'len(line)')]
    for _ in range(n):
        i = rng.randrange(len(axis))
        j = rng.randrange(i, len(axis))
        a, b = int(axis[i]), int(axis[j]) + step       # forward in axis order; stop = one step past an existing line
        if rng.random() < 0.5 and j + 1 < len(axis):
            b = int(axis[j + 1])
        m = rng.choice([1, 1, 2, 3])
        has = (rng.random() < 0.6, rng.random() < 0.6, rng.random() < 0.6)
        if step < 0:
            has = (has[0], has[1], True) if rng.random() < 0.7 else has
        if b < 0:
            has = (has[0], False, has[2])       # one step past a last line numbered 0 would be a negative label (see cases())
        if step < 0 and has[2] and not has[1] and int(min(axis)) == 0:
            # segyio's own default stop for a downward slice is (lowest line - 1) = -1 here: the same negative-label artefact, made internally;
            # give the slice an explicit stop at an existing line instead
            if j + 1 >= len(axis):
                continue
            b, has = int(axis[j + 1]), (has[0], True, has[2])
        s = '%s:%s%s' % (a if has[0] else '', b if has[1] else '', (':%d' % (m * step)) if has[2] else '')
        form = 'line[%s:%s%s]' % ('a' if has[0] else '', 'b' if has[1] else '', ':c' if has[2] else '')
        ex.append(('[np.copy(x) for x in f.%s[%s]]' % (name, s), form))
    return ex


def ordinal_exprs(name, n, rng, k, wrap=None):
    wrap = wrap or '%s'
    ex = []
    for v in (0, n - 1, -1, -n, rng.randrange(n), -rng.randrange(1, n + 1)):
        ex.append((wrap % ('f.%s[%d]' % (name, v)), '%s[int]' % name))
    for v in (n, n + 3, -n - 1, -n - 5):
        ex.append((wrap % ('f.%s[%d]' % (name, v)), '%s[out-of-range]' % name))
    # the ordinal carried by a NumPy integer of the narrowest width that holds it
    for v in (n - 1, rng.randrange(n), -rng.randrange(1, n + 1)):
        dt_ = next(d_ for d_ in ('uint8', 'int8', 'int16', 'int32') if np.iinfo(d_).min <= v <= np.iinfo(d_).max)
        ex.append((wrap % ('f.%s[np.%s(%d)]' % (name, dt_, v)), '%s[numpy-int]' % name))
    lw = '[np.copy(x) for x in %s]' if wrap == '%s' else '[dict(x) for x in %s]'
    ex.append(('len(f.%s)' % name, 'len(%s)' % name))
    for _ in range(k):
        a, b = sorted((rng.randrange(-n, n), rng.randrange(-n, n + 1)))
        st = rng.choice([1, 1, 2, 3, -1, -2, 5])
        if st < 0:
            a, b = b, a
        has = (rng.random() < 0.7, rng.random() < 0.7, rng.random() < 0.7)
        s = '%s:%s%s' % (a if has[0] else '', b if has[1] else '', (':%d' % st) if has[2] else '')
        ex.append((lw % ('f.%s[%s]' % (name, s)), '%s[slice]' % name))
    return ex


def gen_exprs(src, rng, n):
    il, xl = src['ilines'], src['xlines']
    nI, nX, nZ = src['data'].shape
    ex = [('f.ilines', 'ilines'), ('f.xlines', 'xlines'), ('f.samples', 'samples'), ('f.tracecount', 'tracecount'), ('dict(f.bin)', 'bin'),
          ('bytes(f.text[0])', 'text[0]' if not src['desc'].get('text_special') else 'text[0]:punctuation-outside-cp037'),
          ('TOOLS.dt(f)', 'tools.dt'), ('TOOLS.cube(PATH)', 'tools.cube'), ('f.unstructured', 'unstructured')]
    ex += line_exprs('iline', il, rng, 12)
    ex += line_exprs('xline', xl, rng, 12)
    ex += ordinal_exprs('depth_slice', nZ, rng, 10)
    ex += ordinal_exprs('trace', nI * nX, rng, 10)
    ex += ordinal_exprs('header', nI * nX, rng, 8, wrap='dict(%s)')
    varying = [k for k in KEYS if not np.all(src['headers'][k] == src['headers'][k][0])]
    # ... and header words that have one value on every trace (segyio gives an array of that value)
    invariant = [k for k in KEYS if k not in varying and k not in (189, 193)]
    for k in rng.sample(varying, min(3, len(varying))) + [189, 193] + rng.sample(invariant, min(2, len(invariant))):
        nT = nI * nX
        a, b = sorted((rng.randrange(nT), rng.randrange(nT + 1)))
        ex += [('f.attributes(%d)[:]' % k, 'attributes[:]'), ('f.attributes(%d)[%d:%d]' % (k, a, b), 'attributes[a:b]'),
               ('f.attributes(%d)[::%d]' % (k, rng.choice([2, 3, 7])), 'attributes[::c]'), ('f.attributes(%d)[%d]' % (k, rng.randrange(nT)), 'attributes[int]')]
    rng.shuffle(ex)
    return ex[:n] if len(ex) > n else ex


def run_case(case, ctx):
    import seismic_zfp
    import seismic_zfp.tools as ztools
    rng = ctx['rng']
    sc = ctx['scratch']
    src = conv.build_source(case['src'], sc)
    sgz = sc.file('o.sgz')
    conv.convert_segy(src['path'], sgz, case['rate'], tuple(case['bs']), detection='thorough')
    V = oracles.Spec(sgz).decode()
    D = src['data']
    nI, nX, nZ = D.shape
    il, xl = src['ilines'], src['xlines']

    def table(A):
        t = {}
        for i in range(nI):
            t[np.ascontiguousarray(A[i]).tobytes()] = ('il', int(il[i]))
        for x in range(nX):
            t[np.ascontiguousarray(A[:, x]).tobytes()] = ('xl', int(xl[x]))
        for z in range(nZ):
            t[np.ascontiguousarray(A[:, :, z]).tobytes()] = ('z', z)
        for i in range(nI):
            for x in range(nX):
                t[np.ascontiguousarray(A[i, x]).tobytes()] = ('tr', i * nX + x)
        t[np.ascontiguousarray(A).tobytes()] = ('cube',)
        return t
    tabS, tabZ = table(D), table(V)

    def norm(v, tab):
        if isinstance(v, dict):
            return ('dict', tuple(sorted((int(k), int(x)) for k, x in v.items())))
        if isinstance(v, (bytes, bytearray)):
            return ('bytes', bytes(v))
        if isinstance(v, (list, tuple)):
            return ('list', tuple(norm(x, tab) for x in v))
        if isinstance(v, (bool, np.bool_)):
            return ('bool', bool(v))
        if isinstance(v, (int, np.integer)):
            return ('num', int(v))
        if isinstance(v, (float, np.floating)):
            return ('num', round(float(v), 6))
        a = np.asarray(v)
        if a.dtype.kind in 'iu':
            return ('iarr', a.shape, tuple(int(x) for x in a.reshape(-1)))
        if a.ndim == 1 and a.dtype.kind == 'f' and a.size == nZ and a.tobytes() not in tab and np.ascontiguousarray(a, dtype=np.float32).tobytes() not in tab:
            return ('farr', a.shape, tuple(round(float(x), 5) for x in a))
        key = np.ascontiguousarray(a, dtype=np.float32).tobytes()
        return ('arr', a.shape, tab.get(key, 'UNIDENTIFIED'))

    def ev(f, expr, tools, path, tab):
        try:
            v = eval(expr, {'f': f, 'np': np, 'TOOLS': tools, 'PATH': path, 'len': len, 'list': list, 'dict': dict, 'bytes': bytes})
            return ('ok', norm(v, tab))
        except Exception as e:  # noqa
            return ('exc', type(e).__name__)
    exprs = gen_exprs(src, rng, case['nexpr'])
    bad, forms = [], set()
    n = 0
    dirs = 'il%s,xl%s' % ('asc' if il[1] > il[0] else 'desc', 'asc' if xl[1] > xl[0] else 'desc')
    with segyio.open(src['path']) as a, seismic_zfp.open(sgz) as b:
        for expr, form in exprs:
            ra = ev(a, expr, segyio.tools, src['path'], tabS)
            rb = ev(b, expr, ztools, sgz, tabZ)
            n += 1
            axis = ''
            if form.startswith(('line', 'iter', 'len(line')):
                ax = il if '.iline' in expr else xl
                axis = ':desc' if ax[1] < ax[0] else ':asc'
            forms.add(form + axis)
            if ra[0] == 'exc' and rb[0] == 'exc':
                continue
            if ra != rb:
                if ra[0] != rb[0]:
                    what = 'segyio-rejects-sgz-returns' if ra[0] == 'exc' else 'segyio-returns-sgz-raises-' + rb[1]
                elif 'UNIDENTIFIED' in str(rb):
                    what = 'samples-not-from-decoded-volume'
                else:
                    what = 'result-differs'
                bad.append({'sig': 'emulation:%s%s:%s' % (form, axis, what),
                            'detail': '%s on axes il=%s.. xl=%s..: segyio %s | sgz %s' % (expr, il[:3], xl[:3], str(ra)[:160], str(rb)[:160])})
        # subvolume[...] has no segyio counterpart: structure = numpy slicing of segyio's cube on the same index ranges
        C = segyio.tools.cube(a)
        zi = b.subvolume.zslices_int
        if len(set(zi.tolist())) == nZ:
            for _ in range(10):
                i0, x0, z0 = rng.randrange(nI), rng.randrange(nX), rng.randrange(nZ)
                i1, x1, z1 = rng.randrange(i0 + 1, nI + 1), rng.randrange(x0 + 1, nX + 1), rng.randrange(z0 + 1, nZ + 1)
                m = (rng.choice([1, 2]), rng.choice([1, 2]), rng.choice([1, 3]))

                def cd(axis, i):
                    return int(axis[i]) if i < len(axis) else int(axis[-1] + (axis[1] - axis[0]))
                # every part of every slice is present or omitted independently; the coordinate 0 is used as a bound whenever the axis has it
                lo, hi, axs = [i0, x0, z0], [i1, x1, z1], [il, xl, zi]
                for d_ in range(3):
                    z_at = [j for j, v in enumerate(axs[d_]) if int(v) == 0]
                    if z_at and rng.random() < 0.5:
                        if rng.random() < 0.5 and z_at[0] < len(axs[d_]) - 0:
                            lo[d_], hi[d_] = z_at[0], max(hi[d_], z_at[0] + 1)
                        elif z_at[0] > 0:
                            lo[d_], hi[d_] = min(lo[d_], z_at[0] - 1), z_at[0]
                i0, x0, z0 = lo
                i1, x1, z1 = hi
                omit = [[rng.random() < 0.25 for _ in range(3)] for _ in range(3)]
                idx, sl = [], []
                for d_, (a_, b_, m_, ax_) in enumerate(((i0, i1, m[0], il), (x0, x1, m[1], xl), (z0, z1, m[2], zi))):
                    o = omit[d_]
                    idx.append(slice(None if o[0] else a_, None if o[1] else b_, None if o[2] else m_))
                    sl.append(slice(None if o[0] else cd(ax_, a_), None if o[1] else cd(ax_, b_), None if o[2] else m_ * int(ax_[1] - ax_[0])))
                idx, sl = tuple(idx), tuple(sl)
                if any(s_.start == 0 or s_.stop == 0 for s_ in sl):
                    forms.add('subvolume[bound=0]')
                n += 1
                forms.add('subvolume[a:b:c]')
                want = C[idx].shape
                try:
                    got = b.subvolume[sl]
                    if got.shape != want or got.tobytes() != np.ascontiguousarray(V[idx]).tobytes():
                        bad.append({'sig': 'emulation:subvolume[a:b:c]:result-differs', 'detail': '%s: shape %s want %s' % (sl, got.shape, want)})
                except Exception as e:  # noqa
                    bad.append({'sig': 'emulation:subvolume[a:b:c]:raises-%s' % type(e).__name__, 'detail': '%s: %r' % (sl, e)})
    return {'violations': bad, 'counters': {'expressions': n}, 'strata': ['axes:' + dirs, 'interval-hdr:%s' % case['src'].get('interval_hdr'), 'footer-pages:%s' % ('exact' if (4 * nI * nX) % 512 == 0 else 'partial')] + sorted('form:' + f for f in forms),
            'key': case['id'], 'forms': sorted(forms)}


def finalize(tier, cases, results, counters, strata):
    reasons = []
    need = ['axes:ilasc,xlasc', 'axes:ildesc,xlasc', 'axes:ildesc,xldesc', 'form:line[present]:asc', 'form:line[present]:desc', 'form:line[absent]:asc', 'form:line[:]:asc',
            'form:line[:]:desc', 'form:iter(line):asc', 'form:iter(line):desc', 'form:depth_slice[int]', 'form:trace[slice]', 'form:header[slice]', 'form:trace[numpy-int]', 'form:header[numpy-int]', 'form:attributes[a:b]',
            'form:bin', 'form:text[0]', 'form:tools.dt', 'form:tools.cube', 'form:subvolume[a:b:c]', 'form:subvolume[bound=0]', 'interval-hdr:bin-zero', 'interval-hdr:bin-differs', 'interval-hdr:trace-zero', 'footer-pages:exact']
    for s in need:
        if s not in strata:
            reasons.append('required stratum not hit: ' + s)
    forms = set()
    for r in results.values():
        forms.update(r.get('forms', []))
    return {'distinct_expression_forms': len(forms)}, reasons

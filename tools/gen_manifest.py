#!/venv/bin/python
"""Regenerate MANIFEST.json from the table below; a property is claimed iff its check module exists."""
import json
import os
import subprocess

V = '/verif'
PY = '/venv/bin/python'
T = {
    'C01': ('exploration', 'Generated SEG-Y (IBM/IEEE/integer formats), ZGY (pyzgy writer) and NumPy sources are converted by the real writers (fresh and re-used converter objects) over routes x valid settings x queue capacities while monitors compare read_volume() and every data-section cell bitwise with an independent per-cell ZFP image; held = no deviation on the executions produced (counts in evidence).',
            'differential runtime monitor: value + byte oracle (per-cell ZFP image), route agreement, conformance checker', '3 C01'),
    'C02': ('exploration', 'Every public read path of the real reader is driven on fixtures and on files written from the specification by the harness (all layouts, rates, version conventions) with arguments stratified on residues mod 4 / mod blockshape, each result compared bitwise with the slice of an independent spec-only decode.',
            'runtime differential monitor against an independent decoder written from the file specification', '3 C02'),
    'C03': ('exploration', 'A conformance checker (specification + generator truth, full independent decode of samples and all 89 header fields) observes every file every writer and writer composition returns, incl. ZGY-sourced files and every writer call made by the repository test suite (pytest plugin with postconditions on the writer entry points); the version encoding is driven exhaustively over its 8.4M-value space through the real class; gates are exercised by writing under pinned library versions in child processes.',
            'conformance monitor over written bytes; exhaustive enumeration through the real version class; pinned-version child processes', '3 C03'),
    'C04': ('exploration', 'For generated SEG-Y files x 4 detection modes every trace header accessor of the real reader is compared, for every trace and all 89 fields, with segyio on the source; NumPy-route header dicts likewise.',
            'differential runtime monitor vs segyio on the source over a trace-header content model', '3 C04'),
    'C05': ('exploration', 'Axes, counts and flags reported by the reader/emulator for generated SEG-Y (3D and 2D), NumPy (axes as arguments or header arrays) and ZGY (float sample axes) sources over the stated axis/interval/start classes are compared with segyio / pyzgy on the source, also after crop, re-block, export and windowed conversion.',
            'differential runtime monitor over stratified axis triples', '3 C05'),
    'C06': ('exploration', 'Export through API and CLI of generated sources (regular, irregular, 2D; IBM/IEEE) is observed with segyio: geometry, byte-identical file headers, every trace header, samples vs the independent spec decode of the SGZ, trace order by watermark; binary headers with arbitrary content in the assigned fields; reads through the exporter object before the export.',
            'round-trip differential monitor (segyio on original vs export vs SgzReader)', '3 C06'),
    'C07': ('exploration', 'A counting file object and a fake blob client record every (offset,length) the real reader requests per call; an oracle derived from the independent block map decides needed blocks, double fetches, footer/header traffic and preload behaviour, cold and warm, both backends.',
            'I/O trace monitor with block-map oracle', '3 C07'),
    'C08': ('exploration', 'Generated irregular surveys (hole patterns, independent starts and unequal increments) are converted and every accessor compared with the source traces and with the ZFP image of the zero-filled, zero-extended grid.',
            'differential runtime monitor on generated irregular SEG-Y', '3 C08'),
    'C09': ('exploration', '2D sources in the three ways a file is 2D x valid (1,b,c) settings: trace/header identity, 2-D codec image bitwise, sub-plane windows, dimensionality refusals; sub-minimum rates run in isolated workers with native contracts.',
            'differential runtime monitor + native-boundary contracts in isolated workers', '3 C09'),
    'C10': ('exploration', 'Crops by index and coordinate of harness-written and repository-written sources of every layout: conformance, decode equality with the widened box of the source, axes, headers; invalid requests must raise IndexError and leave no output.',
            'differential runtime monitor (cropped file vs source restricted) + conformance checker', '3 C10'),
    'C11': ('exploration', 'Windowed conversion vs conversion of a harness-written SEG-Y holding only the windowed traces: the two outputs must agree in every observable; all windows of small cubes incl. ordinal-0 bounds, both readers, API and CLI.',
            'differential runtime monitor (windowed vs sub-cube conversion)', '3 C11'),
    'C12': ('exploration', 'Re-blocking of generated default-layout 2-bit files (regular/irregular, 1-5 arrays, shapes around 64-blocks): conformance, decode equality on real voxels, headers, hash, refusals, read ranges inside data+footer.',
            'differential runtime monitor + conformance + I/O trace monitor', '3 C12'),
    'C13': ('exploration', 'Generated expressions of the documented segyio-like grammar are evaluated on segyio.open(sgy) and seismic_zfp.open(sgz); structure, element identity (watermark), header values and rejection must agree, samples must equal the spec decode.',
            'differential evaluation of generated accessor expressions (segyio as reference implementation)', '3 C13'),
    'C14': ('exploration', 'Every public read method of the real reader/emulator is driven with out-of-range argument classes on files whose padded extent exceeds the real one; verdict from the exception type or returned value.',
            'runtime monitor over out-of-range argument classes', '3 C14'),
    'C15': ('exploration', 'Random histories over a pool of readers, an emulator and an xarray dataset on one file; every operation is compared with the same call on a fresh reader; cache hit/eviction counters prove warm paths ran.',
            'history monitor with a stateless (fresh reader) reference', '3 C15'),
    'C16': ('exploration', 'Systematic schedule exploration of the REAL writer threads: Queue/Thread/file writes are yield points under a serialising scheduler; timed queue operations / condition waits time out whenever scheduled (virtual time); DFS over all schedules for 1-2 plane sets x capacities {1,2,16} x routes, PCT/random sampling beyond; per execution: deadlock freedom (logical), output = sequential output, write order, quiescence, conformance.',
            'controlled-scheduler systematic concurrency testing of the real threads (stateless DFS + random), output/write-log oracles', '3 C16'),
    'C17': ('fault_enumeration', 'For every read method every position of its range-read sequence x fault kind {exception, short (half, len-1), empty} is injected on a fresh reader (local and blob), plus pairs and construction-time faults; after a failed call the same call and the other accessors are repeated fault-free on the same reader; blob completion orders are permuted with per-request gates; result must be an exception or the true result; native-boundary contracts watch the codec calls.',
            'single/pair fault injection at the storage boundary + completion-order control + native contracts', '3 C17'),
    'C18': ('fault_enumeration', 'The raw write log of a real conversion (recording open) yields crash states: every prefix of the sequence of writes and file-length changes, cuts inside writes, stratified byte lengths; each state is opened and every read method compared with the complete file (raise or identical).',
            'crash-state materialisation from recorded write logs + differential read monitor', '3 C18'),
    'C19': ('exploration', 'The complete valid (bits_per_voxel, blockshape) set is enumerated through the real converters (3D and 2D) in isolated workers and near-miss settings are sampled; outcome classes rejected-cleanly / faithful / anything else.',
            'exhaustive enumeration of the valid configuration set through the real code with fidelity + conformance monitors; crash attribution by process isolation', '3 C19'),
    'C20': ('exploration', 'Stored hash vs hashlib.sha1 over the source samples in trace order for 3D/irregular/2D/ZGY sources (float and integer formats) x routes x settings x detection modes, block-aligned and unaligned shapes, windowed conversion, converter objects re-used across runs; single-sample perturbations at stratified positions must change it; re-blocking keeps it.',
            'differential runtime monitor vs independent SHA-1', '3 C20'),
}
NOTE = ('trusted base: zfpy/libzfp for one 4^d cell / one 4 KiB block, segyio as reader of generated SEG-Y, '
        'docs/file-specification.md; held = held on the executions produced (see evidence counters), not a proof')


def main():
    props = [json.loads(l)['id'] for l in open(os.path.join(V, 'properties.jsonl'))]
    try:
        commits = subprocess.run(['git', '-C', '/repo', 'log', '--format=%h %s', '45bcf96..HEAD'], capture_output=True, text=True).stdout.splitlines()
    except Exception:  # noqa
        commits = []
    checks, na = [], []
    for p in props:
        if os.path.exists(os.path.join(V, 'vz', 'props', p.lower() + '.py')):
            lvl, text, tech, ref = T[p]
            checks.append({
                'property_id': p,
                'quick_cmd': 'cd /verif && %s -m vz check %s --tier quick' % (PY, p),
                'thorough_cmd': 'cd /verif && %s -m vz check %s --tier thorough' % (PY, p),
                'evidence_file': '/verif/evidence/%s.json' % p,
                'replay_cmd_template': 'cd /verif && %s -m vz replay {path}' % PY,
                'engine': 'vz',
                'level_claimed': {'category': lvl, 'text': text, 'design_ref': 'DESIGN.md section ' + ref},
                'level_note': NOTE,
                'technique': tech,
            })
        else:
            na.append({'property_id': p, 'reason': 'check not built yet (build in progress; see DESIGN.md section 3 for its design)'})
    m = {
        'version': 1,
        'setup_cmd': 'cd /verif && %s -c "import vz.driver, numpy, segyio, zfpy, xarray"' % PY,
        'hooks': {'guard': 'EQUINOR_SEISMIC_ZFP_VERIF',
                  'enable': 'no in-tree hooks: every observation point is installed from /verif at run time (DESIGN.md 2.2); the guard name is reserved',
                  'baseline_off_cmd': 'cd /repo && /venv/bin/python -m pytest -ra -q -p no:cacheprovider --timeout=900 --continue-on-collection-errors',
                  'source_commits': [], 'add_only': True},
        'engines': [{'name': 'vz', 'path': '/verif/vz', 'serves_properties': [c['property_id'] for c in checks],
                     'kind_free_text': 'runtime monitoring harness: isolated worker processes run the real code of /repo under generated, hostile and fault-injected workloads; monitors/oracles in vz/'}],
        'checks': checks,
        'notes': 'fix: commits in /repo (genuine defects found by the checks): ' + '; '.join(commits),
        'not_applicable': na,
    }
    json.dump(m, open(os.path.join(V, 'MANIFEST.json'), 'w'), indent=1)
    print('claimed', [c['property_id'] for c in checks])


if __name__ == '__main__':
    main()

"""C10 cropping: cropped file vs the source restricted to the requested box widened to block boundaries."""
import os
import random

import numpy as np

from .. import conform, conv, env, files, monitors, oracles, reads
from ..oracles import KEYS
from .c03 import spec_fields

ID, TITLE, LEVEL = 'C10', 'cropping', 'exploration'
RULE = ('case = one source SGZ (harness spec-writer files of every layout family x rate with 0-5 stored arrays, duplicate rows, '
        'negative / descending line numbers, pre- and post-0.2.1 footer conventions; repository-written files) x a list of crop '
        'requests by index and by coordinate: ends aligned/unaligned per axis, touching the last partial block, full range on '
        'some axes, z-crops; plus invalid requests (outside, no range, empty, inverted, absent coordinate). Valid: output must '
        'pass conformance, decode (O-SPEC and reader paths) bitwise to V_source[W(R)], carry the sub-axes, trace count |W|, '
        'structured flag and every header of the corresponding source trace. Invalid: IndexError and no output file. '
        'distinct = (layout, rate, request class per axis, form); non-trivial = a crop was written and compared or an invalid '
        'request was judged')
ASSUMPTIONS = ['irregular and 2D sources are outside the statement (output must be structured); 2D sources are only checked to be refused']


def cases(tier, seed):
    rng = random.Random('C10/%s' % seed)
    out = []
    reps = 3 if tier == 'quick' else 12
    for rep in range(reps):
        lays = [('default', r, b) for r, b in files.LAYOUTS_3D['default']] + [('zslice', r, b) for r, b in files.LAYOUTS_3D['zslice']] + \
               [('general', r, b) for r, b in files.LAYOUTS_3D['general']]
        for fam, rate, bs in lays:
            shape = files.small_shape_for(bs, rng, blocks=(2, 3), cap=700_000 if tier == 'quick' else 3_000_000)
            d = files.wspec_desc(rng, shape, rate, bs, narr=rng.choice([0, 1, 2, 3, 5]), il=[rng.choice([1, 10, -7, -100, 250000, 2 ** 24]), rng.choice([1, 2, -1, -3])],
                                 xl=[rng.choice([0, 100, -20, 1000000]), rng.choice([1, 3, -2])], version=rng.choice([[0, 2, 9], [0, 2, 9], [0, 2, 1], [0, 1, 9], [0, 2, 2]]))
            out.append({'id': 'w:%s:%s:%s:%d' % (fam, rate, 'x'.join(map(str, bs)), rep), 'file': d, 'nreq': 6 if tier == 'quick' else 12, 'cost': 3})
        for rate, bs in [(4, (4, 4, -1)), (2, (64, 64, 4)), (8, (8, 8, -1)), (2, (4, 4, -1))]:
            rbs = conv.resolve_bs(rate, bs)
            shape = files.small_shape_for(rbs, rng, blocks=(2, 2), cap=700_000)
            d = files.wspec_desc(rng, shape, rate, bs, kind='numpy', il=[rng.choice([0, 3, -9]), rng.choice([1, 2])], xl=[5, 2])
            out.append({'id': 'np:%s:%s:%d' % (rate, 'x'.join(map(str, bs)), rep), 'file': d, 'nreq': 6, 'cost': 3})
    # traces longer than the 16-bit sample count of a SEG-Y binary header can say (a NumPy source has no such header to keep consistent)
    out.append({'id': 'np:long-traces', 'file': files.wspec_desc(rng, (4, 6, 66000), 16, (4, 4, -1), kind='numpy', il=[1, 1], xl=[5, 2], valkind='smooth'), 'nreq': 2, 'cost': 6,
                'keep_z': True})
    # the fixture files of the repository (format versions 0.0.0 ... 0.2.8.dev, one of them with a single header block)
    for rel in files.fixtures():
        if rel in ('small-2d.sgz', 'small-irregular.sgz', 'small_hole.sgz'):
            continue
        out.append({'id': 'fix:' + rel, 'file': {'kind': 'fixture', 'rel': rel}, 'nreq': 4, 'cost': 1})
    out.append({'id': 'refuse-2d', 'file': {'kind': 'fixture', 'rel': 'small-2d.sgz'}, 'nreq': 1, 'cost': 1})
    out.append({'id': 'refuse-irregular', 'file': {'kind': 'fixture', 'rel': 'small-irregular.sgz'}, 'nreq': 1, 'cost': 1})
    return out


def rand_req(n, b, rng):
    """(range or None, class)"""
    k = rng.choice(['none', 'aligned', 'unaligned', 'tail', 'full', 'one'])
    nb = -(-n // b)
    if k == 'none':
        return None, k
    if k == 'full':
        return (0, n), k
    if k == 'aligned':
        lo = rng.randrange(nb) * b
        hi = min(n, lo + b * rng.randint(1, nb))
        return (lo, hi), k
    if k == 'tail':
        lo = rng.randrange(n)
        return (lo, n), k
    if k == 'one':
        lo = rng.randrange(n)
        return (lo, lo + 1), k
    lo = rng.randrange(n)
    return (lo, rng.randrange(lo + 1, n + 1)), k


def invalid_reqs(n, rng):
    lo = rng.randrange(n)
    return [((0, n + 1), 'outside-high'), ((-1, max(1, lo)), 'outside-low'), ((lo, lo), 'empty'), ((min(n - 1, lo + 1), lo) if lo + 1 <= n - 1 else (n - 1, 0), 'inverted'),
            ((n, n + 4), 'beyond')]


def widen(r, n, b):
    if r is None:
        return (0, n)
    return (r[0] // b * b, min(n, -(-r[1] // b) * b))


def run_case(case, ctx):
    from seismic_zfp.cropping import SgzCropper
    from seismic_zfp.read import SgzReader
    rng = ctx['rng']
    sc = ctx['scratch']
    try:
        path, truth = files.build(case['file'], sc)
    except Exception:  # noqa
        if case['file']['kind'] == 'numpy':
            return {'nontrivial': False, 'counters': {'writer_unavailable': 1}}
        raise
    out = sc.file('crop.sgz')
    bad, strata = [], set()
    ncrops = ninvalid = 0
    if case['id'].startswith('refuse-'):
        # sources the cropper cannot re-address as a structured sub-cube: must be refused, nothing written
        what = case['id'][7:]
        try:
            with env.quiet():
                with SgzCropper(path) as c:
                    c.write_cropped_file_by_indexes(out, (0, 4), None, None)
            bad.append({'sig': 'crop:%s-source-not-refused' % what, 'detail': 'cropping a %s file returned' % what})
        except Exception:  # noqa
            if os.path.exists(out):
                bad.append({'sig': 'crop:refusal-leaves-output-file', 'detail': '%s source: %d bytes left behind' % (what, os.path.getsize(out))})
        return {'violations': bad, 'counters': {'invalid_requests': 1}, 'strata': [case['id']], 'key': case['id']}
    sp = oracles.Spec(path)
    V = sp.decode()
    F = spec_fields(sp) if sp.stored or any(r[1] for r in sp.table) else {k: np.zeros(sp.grid_traces, dtype=np.int64) for k in KEYS}
    nI, nX, nZ = sp.shape
    il, xl, zs = sp.ilines(), sp.xlines(), sp.samples()
    fam = 'default' if tuple(sp.bs[:2]) == (4, 4) else 'zslice' if sp.bs[2] == 4 else 'general'
    strata.add('layout:' + fam)
    import zlib
    reuse = zlib.crc32(case['id'].encode()) % 2 == 1
    remote = zlib.crc32(case['id'].encode()) % 4 == 2 and case['file'].get('kind') != 'fixture'
    shared_c = []
    for q in range(case['nreq']):
        reqs = [rand_req(n, b, rng) for n, b in zip((nI, nX, nZ), sp.bs)]
        if case.get('keep_z') and q == 0:
            reqs[2] = (None, 'none')        # the whole (long) trace is kept by the first request
        if all(r[0] is None for r in reqs):
            reqs[0] = ((0, nI), 'full')
        ir, xr, zr = [r[0] for r in reqs]
        form = rng.choice(['index', 'coords'])
        W = [widen(r, n, b) for r, n, b in zip((ir, xr, zr), (nI, nX, nZ), sp.bs)]
        if os.path.exists(out):
            os.remove(out)
        with SgzReader(path) as rr:
            rz = np.asarray(rr.zslices)

        def to_coord(r, axis, step_axis):
            if r is None:
                return None
            stop = axis[r[1]] if r[1] < len(axis) else axis[-1] + (axis[-1] - axis[-2] if len(axis) > 1 else 1)
            return (axis[r[0]].item() if hasattr(axis[r[0]], 'item') else axis[r[0]], stop.item() if hasattr(stop, 'item') else stop)
        try:
            with env.quiet():
                # the cropper is a reader too, and one cropper object may write several crops: what it read or wrote before must not
                # show in the next output (half of the cases keep one object for all their requests; a third of the requests read first)
                if reuse and shared_c:
                    c = shared_c[0]
                else:
                    # a quarter of the cases crop a REMOTE source (the parallel backend; downloads take a while and the interpreter hands over
                    # between the pool threads at any statement of the loader / cropper)
                    if remote:
                        fb = monitors.FakeBlob(path)
                        fb.latency = 0.001
                        c = SgzCropper(fb)
                        strata.add('source:remote')
                    else:
                        c = SgzCropper(path)
                    if reuse:
                        shared_c.append(c)
                yi = monitors.YieldInjector(suffixes=('seismic_zfp/loader.py', 'seismic_zfp/cropping.py'), seed=q) if remote else None
                if yi:
                    yi.__enter__()
                try:
                    if q % 3 == 1:
                        if sp.stored:
                            c.get_tracefield_values(sp.stored[-1])
                        c.gen_trace_header(sp.ntr - 1)
                        c.read_inline(nI - 1)
                        strata.add('cropper-read-before-crop')
                    if form == 'index' or nI < 2 or nX < 2 or nZ < 2:
                        form = 'index'
                        c.write_cropped_file_by_indexes(out, ir, xr, zr)
                    else:
                        c.write_cropped_file_by_coords(out, to_coord(ir, il, 0), to_coord(xr, xl, 1), to_coord(zr, rz, 2))
                finally:
                    if yi:
                        yi.__exit__(None, None, None)
                    if not reuse and not remote:
                        c.close()
                if reuse and q > 0:
                    strata.add('cropper-reused')
        except Exception as e:  # noqa
            bad.append({'sig': 'crop:valid-request-raises-%s' % type(e).__name__,
                        'detail': 'layout %s bs %s shape %s request %s (%s form): %r' % (fam, sp.bs, sp.shape, (ir, xr, zr), form, e)})
            continue
        ncrops += 1
        for ax, r in zip('ixz', reqs):
            strata.add('req-%s:%s' % (ax, r[1]))
        strata.add('form:' + form)
        sl = tuple(slice(a, b) for a, b in W)
        fh = bytearray(sp.file_header)
        if W[2][1] - W[2][0] <= 0xFFFF:
            fh[3220:3222] = int(W[2][1] - W[2][0]).to_bytes(2, 'big')       # (a longer trace does not fit the 16-bit SEG-Y field, which is then left as it was)
        t = {'shape': tuple(b - a for a, b in W), 'rate': sp.rate, 'bs': sp.bs, 'ilines': il[sl[0]], 'xlines': xl[sl[1]], 'samples': zs[sl[2]],
             'ntraces': (W[0][1] - W[0][0]) * (W[1][1] - W[1][0]), 'data_image': V[sl], 'file_header': bytes(fh),
             'fields': {k: a.reshape(nI, nX)[sl[0], sl[1]].reshape(-1) for k, a in F.items()}}
        if sp.nhb != 2:
            # original-format source (single header block, no SEG-Y file header, empty header-word table): the crop keeps that layout
            t.update(nhb=sp.nhb, legacy_table=True)
            del t['file_header']
        b, sp2 = conform.check(out, t, tag='crop:')
        for x in b:
            x['detail'] += ' [layout %s bs %s source shape %s request %s -> box %s, %s form]' % (fam, sp.bs, sp.shape, (ir, xr, zr), W, form)
        bad += b
        if b:
            continue
        Vc = V[sl]
        with SgzReader(out) as r:
            if not r.structured or r.tracecount != t['ntraces']:
                bad.append({'sig': 'crop:structured-or-tracecount', 'detail': 'structured %r tracecount %d (box %s)' % (r.structured, r.tracecount, W)})
            if not (np.array_equal(r.ilines, t['ilines']) and np.array_equal(r.xlines, t['xlines']) and len(r.zslices) == len(t['samples'])
                    and np.allclose(r.zslices, t['samples'])):
                bad.append({'sig': 'crop:axes-differ', 'detail': 'box %s' % (W,)})
            ops = reads.ops_3d(Vc.shape, r.blockshape, rng, 14)
            b2, _ = reads.check_ops(r, ops, lambda op: reads.expected_3d(Vc, op), tag='crop:')
            bad += b2
            nt = t['ntraces']
            for tr in {0, nt - 1, rng.randrange(nt)}:
                h = {int(k): int(v) for k, v in r.gen_trace_header(tr).items()}
                if any(h.get(k) != int(t['fields'][k][tr]) for k in KEYS):
                    bad.append({'sig': 'crop:trace-header-differs-from-source-trace', 'detail': 'trace %d of box %s' % (tr, W)})
                    break
    for c_ in shared_c:
        try:
            c_.close()
        except Exception:  # noqa
            pass
    # invalid requests
    for axis, n in enumerate((nI, nX, nZ)):
        for req, cls in invalid_reqs(n, rng):
            box = [None, None, None]
            box[axis] = req
            if rng.random() < 0.5:
                o = (axis + 1) % 3
                box[o] = (0, (nI, nX, nZ)[o])
            if os.path.exists(out):
                os.remove(out)
            ninvalid += 1
            strata.add('invalid:' + cls)
            try:
                with env.quiet():
                    with SgzCropper(path) as c:
                        c.write_cropped_file_by_indexes(out, *box)
                bad.append({'sig': 'crop:invalid-request-accepted:' + cls, 'detail': 'request %s on shape %s wrote a file' % (box, sp.shape)})
            except IndexError:
                if os.path.exists(out):
                    bad.append({'sig': 'crop:refusal-leaves-output-file', 'detail': 'request %s' % (box,)})
            except Exception as e:  # noqa
                bad.append({'sig': 'crop:invalid-request-raises-%s' % type(e).__name__, 'detail': 'request %s (%s): %r' % (box, cls, e)})
    if os.path.exists(out):
        os.remove(out)
    ninvalid += 2
    for call in ('none', 'absent'):
        try:
            with env.quiet():
                with SgzCropper(path) as c:
                    if call == 'none':
                        c.write_cropped_file_by_indexes(out, None, None, None)
                    else:
                        c.write_cropped_file_by_coords(out, (int(il[0]) + 10 ** 6, int(il[0]) + 10 ** 6 + 1), None, None)
            bad.append({'sig': 'crop:invalid-request-accepted:' + call, 'detail': ''})
        except IndexError:
            if os.path.exists(out):
                bad.append({'sig': 'crop:refusal-leaves-output-file', 'detail': call})
        except Exception as e:  # noqa
            bad.append({'sig': 'crop:invalid-request-raises-%s' % type(e).__name__, 'detail': '%s: %r' % (call, e)})
    strata.update(['invalid:none', 'invalid:absent'])
    # coordinate requests whose stop lies just beyond the exclusive end of the axis (one more line / sample than exists), or between two lines
    if nI >= 2 and nX >= 2:
        ist, xst = int(il[1] - il[0]), int(xl[1] - xl[0])
        past = [((int(il[0]), int(il[-1]) + 2 * ist), None, None, 'il-stop-one-line-past-end'), (None, (int(xl[0]), int(xl[-1]) + 2 * xst), None, 'xl-stop-one-line-past-end'),
                ((int(il[0]), int(il[-1]) + ist + (1 if ist > 0 else -1)), None, None, 'il-stop-one-number-past-end')]
        for ic, xc, zc, cls in past:
            if cls.endswith('number-past-end') and abs(ist) == 1:
                continue
            ninvalid += 1
            if os.path.exists(out):
                os.remove(out)
            try:
                with env.quiet():
                    with SgzCropper(path) as c:
                        c.write_cropped_file_by_coords(out, ic, xc, zc)
                bad.append({'sig': 'crop:invalid-request-accepted:stop-coordinate-past-end', 'detail': '%s: request %s on axes il=%s.. xl=%s.. wrote a file' % (cls, (ic, xc, zc), il[:2], xl[:2])})
            except IndexError:
                if os.path.exists(out):
                    bad.append({'sig': 'crop:refusal-leaves-output-file', 'detail': cls})
            except Exception as e:  # noqa
                bad.append({'sig': 'crop:invalid-request-raises-%s' % type(e).__name__, 'detail': '%s: %r' % (cls, e)})
        strata.add('invalid:stop-past-end:%s' % ('large-numbers' if max(abs(int(il[0])), abs(int(xl[0]))) >= 100000 else 'small-numbers'))
    return {'violations': bad, 'counters': {'crops_compared': ncrops, 'invalid_requests': ninvalid}, 'strata': sorted(strata),
            'key': case['id'], 'nontrivial': ncrops + ninvalid > 0}


def finalize(tier, cases, results, counters, strata):
    reasons = []
    need = ['source:remote', 'layout:default', 'layout:zslice', 'layout:general', 'form:index', 'form:coords', 'invalid:empty', 'invalid:inverted', 'invalid:outside-high',
            'invalid:outside-low', 'invalid:none', 'invalid:absent', 'refuse-2d', 'refuse-irregular', 'cropper-reused', 'cropper-read-before-crop', 'invalid:stop-past-end:large-numbers', 'invalid:stop-past-end:small-numbers'] + ['req-%s:%s' % (a, k) for a in 'ixz' for k in ('aligned', 'unaligned', 'tail', 'full', 'none', 'one')]
    for s in need:
        if s not in strata:
            reasons.append('required stratum not hit: ' + s)
    if counters.get('crops_compared', 0) == 0:
        reasons.append('no crop compared')
    return {}, reasons

import argparse
import os
import sys

from . import driver


def main():
    ap = argparse.ArgumentParser(prog='vz')
    sub = ap.add_subparsers(dest='cmd', required=True)
    c = sub.add_parser('check')
    c.add_argument('prop')
    c.add_argument('--tier', default=None, choices=['quick', 'thorough'])
    c.add_argument('--seed', type=int, default=None)
    c.add_argument('-v', action='store_true')
    r = sub.add_parser('replay')
    r.add_argument('path')
    a = ap.parse_args()
    if a.cmd == 'check':
        tier = a.tier or os.environ.get('VERIF_TIER') or 'quick'
        seed = a.seed if a.seed is not None else int(os.environ.get('VERIF_SEED', '0') or 0)
        sys.exit(driver.run_check(a.prop, tier, seed, verbose=a.v))
    elif a.cmd == 'replay':
        sys.exit(driver.replay(a.path))


if __name__ == '__main__':
    main()

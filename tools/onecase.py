#!/venv/bin/python
"""Run one generated case in-process with a full traceback: tools/onecase.py <PROP> <case-id> [tier] [seed]"""
import importlib, json, os, random, sys, traceback
ROOT = os.path.dirname(os.path.dirname(os.path.abspath(__file__)))
sys.path.insert(0, ROOT)
from vz import env
prop, cid = sys.argv[1], sys.argv[2]
tier = sys.argv[3] if len(sys.argv) > 3 else 'quick'
seed = int(sys.argv[4]) if len(sys.argv) > 4 else 0
pin = env.Scratch(prefix='vzpin-')
env.make_pin(pin.file('pin'))
if os.environ.get('_VZ_ONE') != '1':
    e = env.child_env(pin.file('pin'), {'VERIF_TIER': tier, '_VZ_ONE': '1'})
    import subprocess
    rc = subprocess.run([env.PY] + sys.argv, env=e, cwd=ROOT).returncode
    pin.cleanup()
    sys.exit(rc)
import faulthandler
if os.environ.get('VZ_DUMP_AFTER'):
    faulthandler.dump_traceback_later(float(os.environ['VZ_DUMP_AFTER']), exit=True)
mod = importlib.import_module('vz.props.' + prop.lower())
case = next(c for c in mod.cases(tier, seed) if c['id'] == cid)
case.setdefault('seed', seed)
sc = env.Scratch(prefix='vz-one-')
ctx = {'scratch': sc, 'tier': tier, 'rng': random.Random('%s/%s' % (seed, cid))}
try:
    if hasattr(mod, 'worker_init'):
        mod.worker_init(ctx)
    print(json.dumps(mod.run_case(case, ctx), indent=1, default=str)[:6000])
except BaseException:
    traceback.print_exc()
finally:
    sc.cleanup()

"""Execution environment shared by driver and workers.

* VERIF_REPO   repository under observation (default /repo); put first on sys.path so the
                current working tree is what runs (nothing to build: pure Python).
* version pin  every writer stamps pkg_resources.get_distribution('seismic_zfp').version.
                The installed metadata in this sandbox is an untagged scm snapshot; the harness
                runs the code "as installed from release <V>" by placing a dist-info directory
                with that version first on sys.path (see DESIGN.md 2.1).
"""
import contextlib
import glob
import io
import os
import shutil
import sys
import tempfile

VERIF = os.path.dirname(os.path.dirname(os.path.abspath(__file__)))
REPO = os.path.abspath(os.environ.get('VERIF_REPO', '/repo'))
PY = '/venv/bin/python'
DEFAULT_VERSION = '0.2.9'
TEST_DATA = os.path.join(REPO, 'test_data')


def make_pin(directory, version=DEFAULT_VERSION):
    """Create <directory>/seismic_zfp-<version>.dist-info so that pkg_resources /
    importlib.metadata report <version> when <directory> precedes site-packages."""
    d = os.path.join(directory, 'seismic_zfp-%s.dist-info' % version)
    os.makedirs(d, exist_ok=True)
    with open(os.path.join(d, 'METADATA'), 'w') as f:
        f.write('Metadata-Version: 2.1\nName: seismic_zfp\nVersion: %s\n' % version)
    ep = None
    for cand in glob.glob('/venv/lib/python3*/site-packages/seismic_zfp-*.dist-info/entry_points.txt'):
        ep = cand
    with open(os.path.join(d, 'entry_points.txt'), 'w') as f:
        if ep:
            f.write(open(ep).read())
        else:
            f.write('[xarray.backends]\nsgz_engine = seismic_zfp.sgz_xarray:SeismicZfpBackendEntrypoint\n')
    with open(os.path.join(d, 'top_level.txt'), 'w') as f:
        f.write('seismic_zfp\n')
    return directory


def child_env(pin_dir, extra=None):
    env = dict(os.environ)
    env['PYTHONPATH'] = os.pathsep.join([pin_dir, REPO, VERIF])
    env['PYTHONHASHSEED'] = '0'
    env['VERIF_REPO'] = REPO
    env['PYTHONWARNINGS'] = 'ignore'
    env['PYTHONDONTWRITEBYTECODE'] = '1'
    env.pop('COVERAGE_PROCESS_START', None)
    if extra:
        env.update(extra)
    return env


@contextlib.contextmanager
def quiet():
    """The library prints progress; keep worker stdout clean."""
    with contextlib.redirect_stdout(io.StringIO()):
        yield


class Scratch:
    """One temporary directory per run / worker, removed at exit."""

    def __init__(self, prefix='vz-'):
        self.path = tempfile.mkdtemp(prefix=prefix)

    def file(self, name):
        return os.path.join(self.path, name)

    def cleanup(self):
        shutil.rmtree(self.path, ignore_errors=True)

    def clear(self):
        for n in os.listdir(self.path):
            p = os.path.join(self.path, n)
            if os.path.isdir(p):
                shutil.rmtree(p, ignore_errors=True)
            else:
                try:
                    os.remove(p)
                except OSError:
                    pass

#!/bin/bash
# usage: tools/mutant.sh <patch.diff | -e 'python-expr on source text: file::old::new'> <PROP> [PROP...]
# Applies the change to a scratch copy of /repo (outside /repo and /verif), runs the quick checks with VERIF_REPO, removes the copy.
set -u
d=$(mktemp -d /tmp/vzmut-XXXXXX)
rsync -a --exclude .git /repo/ "$d/"
if [ "$1" = "-e" ]; then
  /venv/bin/python - "$d" "$2" <<'PY'
import sys
d, spec = sys.argv[1], sys.argv[2]
f, old, new = spec.split('::')
p = d + '/' + f
s = open(p).read()
assert s.count(old) >= 1, 'pattern not found'
open(p, 'w').write(s.replace(old, new, 1))
PY
  shift 2
else
  (cd "$d" && patch -p1 -s < "$1") || { echo "patch failed"; rm -rf "$d"; exit 3; }
  shift 1
fi
rc=0
for p in "$@"; do
  VERIF_REPO="$d" /venv/bin/python -m vz check "$p" --tier ${TIER:-quick} 2>&1 | grep -E "^VIOLATION|what:|HELD|VIOLATED|INCONCLUSIVE" | cut -c1-260 | head -${LINES_MAX:-8}
done
rm -rf "$d"
# evidence files were overwritten by the mutant run: restore them from git
git -C /verif checkout -- evidence 2>/dev/null

"""Driver: generates the cases of one property, runs them on isolated worker processes,
classifies outcomes against known findings, writes evidence, prints the verdict lines."""
import hashlib
import importlib
import json
import os
import signal
import subprocess
import sys
import time

from . import env

KNOWN_PATH = os.path.join(env.VERIF, 'known_findings.json')
NWORKERS = int(os.environ.get('VERIF_WORKERS', '16'))


def load_known(prop):
    try:
        entries = json.load(open(KNOWN_PATH))['findings']
    except (OSError, ValueError, KeyError):
        return []
    return [e for e in entries if e.get('property') == prop]


class Shard:
    def __init__(self, idx, cases, prop, root, pin, timeout, tier):
        self.idx, self.cases, self.prop, self.root, self.pin = idx, list(cases), prop, root, pin
        self.timeout, self.tier = timeout, tier
        self.gen = 0
        self.results = {}
        self.proc = None
        self.launch()

    def launch(self):
        self.gen += 1
        self.cases_path = os.path.join(self.root, 'shard%d.%d.json' % (self.idx, self.gen))
        self.out_path = os.path.join(self.root, 'shard%d.%d.out' % (self.idx, self.gen))
        self.err_path = os.path.join(self.root, 'shard%d.%d.err' % (self.idx, self.gen))
        todo = [c for c in self.cases if c['id'] not in self.results]
        json.dump(todo, open(self.cases_path, 'w'))
        open(self.out_path, 'w').close()
        self.proc = subprocess.Popen(
            [env.PY, '-m', 'vz.worker', self.prop, self.cases_path, self.out_path, str(self.timeout)],
            cwd=env.VERIF, env=env.child_env(self.pin, {'VERIF_TIER': self.tier, 'TMPDIR': self.root}),   # worker scratch lives (and dies) under the run's root
            stdout=subprocess.DEVNULL, stderr=open(self.err_path, 'w'))

    def poll(self):
        """True when this shard has a result for every case."""
        if self.proc is None:
            return True
        rc = self.proc.poll()
        if rc is None:
            return False
        inflight, done = None, False
        for line in open(self.out_path):
            try:
                rec = json.loads(line)
            except ValueError:
                continue
            if 'start' in rec:
                inflight = rec['start']
            elif rec.get('done'):
                done = True
            elif 'id' in rec:
                self.results[rec['id']] = rec
                if inflight == rec['id']:
                    inflight = None
        if done or all(c['id'] in self.results for c in self.cases):
            self.proc = None
            return True
        err = open(self.err_path).read()[-2500:]
        if inflight is None:
            # died outside a case (import failure...): attribute to every remaining case once
            for c in self.cases:
                if c['id'] not in self.results:
                    self.results[c['id']] = {'id': c['id'], 'violations': [],
                                             'harness_error': 'worker died outside a case rc=%s\n%s' % (rc, err)}
            self.proc = None
            return True
        if 'Timeout (' in err:
            self.results[inflight] = {'id': inflight, 'violations': [], 'timeout': True,
                                      'inconclusive': 'case watchdog fired (%ss)' % self.timeout}
        else:
            sig = -rc if rc < 0 else rc
            try:
                name = signal.Signals(sig).name if rc < 0 else 'exit%d' % rc
            except ValueError:
                name = 'rc%d' % rc
            self.results[inflight] = {'id': inflight, 'violations': [], 'crash': name, 'stderr': err}
        self.launch()
        return False

    def kill(self):
        if self.proc is not None and self.proc.poll() is None:
            self.proc.kill()


def merge_counters(total, c):
    for k, v in (c or {}).items():
        if isinstance(v, bool):
            total[k] = bool(total.get(k, False)) or v
        elif isinstance(v, (int, float)):
            if k.endswith('_max'):
                total[k] = max(total.get(k, 0), v)
            else:
                total[k] = total.get(k, 0) + v
        elif isinstance(v, list):
            s = set(map(str, total.get(k, [])))
            s.update(map(str, v))
            total[k] = sorted(s)
        elif isinstance(v, dict):
            total.setdefault(k, {})
            merge_counters(total[k], v)


def run_check(prop, tier='quick', seed=0, only_case=None, verbose=False):
    t0 = time.time()
    prop = prop.upper()
    mod = importlib.import_module('vz.props.' + prop.lower())
    cases = [only_case] if only_case else mod.cases(tier, seed)
    ids = [c['id'] for c in cases]
    assert len(set(ids)) == len(ids), 'duplicate case ids'
    for c in cases:
        c.setdefault('seed', seed)
    root = env.Scratch(prefix='vzrun-%s-' % prop)
    results = {}
    try:
        pin = env.make_pin(root.file('pin'))
        nw = max(1, min(NWORKERS, len(cases)))
        order = sorted(range(len(cases)), key=lambda i: -cases[i].get('cost', 1))
        buckets = [[] for _ in range(nw)]
        load = [0.0] * nw
        for i in order:                       # longest-processing-time first
            w = load.index(min(load))
            buckets[w].append(cases[i])
            load[w] += cases[i].get('cost', 1)
        timeout = getattr(mod, 'CASE_TIMEOUT', {}).get(tier, 600 if tier == 'quick' else 3600)
        shards = [Shard(i, b, prop, root.path, pin, timeout, tier) for i, b in enumerate(buckets) if b]
        deadline = t0 + getattr(mod, 'RUN_TIMEOUT', {}).get(tier, 3600 if tier == 'quick' else 6 * 3600)
        pending = list(shards)
        while pending:
            pending = [s for s in pending if not s.poll()]
            if time.time() > deadline:
                for s in pending:
                    s.kill()
                break
            time.sleep(0.05)
        for s in shards:
            results.update(s.results)
    finally:
        root.cleanup()
    return conclude(prop, mod, tier, seed, cases, results, time.time() - t0, verbose)


def conclude(prop, mod, tier, seed, cases, results, wall, verbose=False):
    known = load_known(prop)
    known_keys = {e['key']: e for e in known if e.get('status') == 'known'}
    by_id = {c['id']: c for c in cases}
    counters, strata = {}, set()
    violations = {}          # sig -> (case, detail, count)
    known_seen = {}
    inconclusive, harness_errors = [], []
    nontrivial_keys = set()
    for cid, case in by_id.items():
        r = results.get(cid)
        if r is None:
            inconclusive.append('case %s not run (run watchdog)' % cid)
            continue
        if r.get('harness_error'):
            harness_errors.append((cid, r['harness_error']))
        if r.get('inconclusive'):
            inconclusive.append('case %s: %s' % (cid, r['inconclusive']))
        if r.get('crash'):
            vs = None
            if hasattr(mod, 'on_crash'):
                vs = mod.on_crash(case, r)
            if vs is None:
                vs = [{'sig': 'native-crash:' + r['crash'], 'detail': r.get('stderr', '')[-1200:]}]
            r['violations'] = list(r.get('violations', [])) + vs
        merge_counters(counters, r.get('counters'))
        strata.update(r.get('strata', []))
        if r.get('nontrivial', True) and not r.get('crash') and not r.get('harness_error'):
            nontrivial_keys.add(r.get('key', cid))
        for v in r.get('violations', []):
            sig = v['sig']
            if sig in known_keys:
                known_seen.setdefault(sig, [0, cid])[0] += 1
                continue
            if sig not in violations:
                violations[sig] = [case, v.get('detail', ''), 0]
            violations[sig][2] += 1
    extra, reasons = {}, []
    if hasattr(mod, 'finalize'):
        extra, reasons = mod.finalize(tier, cases, results, counters, strata)
    inconclusive.extend(reasons)
    for cid, tb in harness_errors[:5]:
        inconclusive.append('harness error in case %s: %s' % (cid, tb.strip().splitlines()[-1] if tb.strip() else ''))

    replay_dir = os.path.join(env.VERIF, 'out', 'replay')
    os.makedirs(replay_dir, exist_ok=True)
    lines = []
    for sig, e in known_keys.items():
        if sig in known_seen:
            lines.append('KNOWN-FINDING: property=%s %s [%s; observed %d time(s) in this run]'
                         % (prop, e['what_fails'], sig, known_seen[sig][0]))
        else:
            lines.append('NOTE: listed known finding not reproduced in this run: property=%s %s' % (prop, sig))
    for sig, (case, detail, n) in sorted(violations.items()):
        h = hashlib.sha1(sig.encode()).hexdigest()[:10]
        path = os.path.join(replay_dir, '%s-%s.json' % (prop, h))
        json.dump({'property': prop, 'sig': sig, 'count': n, 'case': case, 'detail': detail, 'tier': tier,
                   'seed': seed}, open(path, 'w'), indent=1, default=str)
        lines.append('VIOLATION property=%s replay=%s' % (prop, path))
        lines.append('  what: %s (x%d) case=%s' % (sig, n, case['id']))
        if detail:
            lines.append('  detail: ' + str(detail).strip().replace('\n', '\n          ')[:1500])
    status = 'violated' if violations else ('inconclusive' if inconclusive else 'held')
    if not violations and inconclusive:
        for r in inconclusive[:10]:
            lines.append('INCONCLUSIVE property=%s %s' % (prop, r))

    samples = [{k: v for k, v in c.items() if k not in ('cost',)} for c in cases[:: max(1, len(cases) // 4)][:4]]
    if hasattr(mod, 'sample_view'):
        samples = [mod.sample_view(c, results.get(c['id'])) for c in cases[:: max(1, len(cases) // 4)][:4]]
    coverage = {
        'evaluations': len([c for c in by_id if c in results]),
        'distinct_nontrivial': len(nontrivial_keys),
        'rule': getattr(mod, 'RULE', ''),
        'samples': samples,
        'monitor_counters': counters,
        'strata_hit': sorted(strata),
        'known_findings_observed': {k: v[0] for k, v in known_seen.items()},
        'verdict': status,
        'inconclusive_reasons': inconclusive[:20],
        'violation_signatures': sorted(violations)[:50],
    }
    coverage.update(extra or {})
    evidence = {
        'property_id': prop, 'tier': tier, 'seed': int(seed), 'level': mod.LEVEL, 'coverage': coverage,
        'assumptions': getattr(mod, 'ASSUMPTIONS', []), 'wall_s': round(wall, 2), 'violations': len(violations),
    }
    # evidence/ is written only by runs against /repo itself; self-validation runs on scratch copies (VERIF_REPO) and replays go elsewhere
    evdir = os.path.join(env.VERIF, 'evidence')
    if env.REPO != '/repo' or os.environ.get('VERIF_REPLAY'):
        evdir = os.path.join(env.VERIF, 'out', 'evidence-scratch')
    os.makedirs(evdir, exist_ok=True)
    json.dump(evidence, open(os.path.join(evdir, prop + '.json'), 'w'), indent=1, default=str)
    for ln in lines:
        print(ln)
    print('%s %s tier=%s seed=%s: %s; %d cases, %d distinct non-trivial, %d violation signature(s), %.1fs'
          % (prop, getattr(mod, 'TITLE', ''), tier, seed, status.upper(), len(results), len(nontrivial_keys),
             len(violations), wall))
    if verbose:
        print(json.dumps(counters, indent=1, default=str)[:4000])
        print('strata:', sorted(strata))
    return 1 if violations else (2 if inconclusive else 0)


def replay(path):
    rec = json.load(open(path))
    os.environ['VERIF_REPLAY'] = '1'
    return run_check(rec['property'], rec.get('tier', 'quick'), rec.get('seed', 0), only_case=rec['case'],
                     verbose=True)

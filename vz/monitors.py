"""Observation points installed from outside the repository (DESIGN.md 2.2)."""
import builtins
import io
import os
import threading

import numpy as np


class InjectedFault(IOError):
    pass


class ContractBreach(BaseException):
    """Native-boundary contract violated; raised instead of making the unsafe native call."""


# ---------------------------------------------------------------------------------------------
# storage, local

class MonFile:
    """File-like object (name, seek, read, close) over a real file.  Logs every read as
    (offset, requested, returned) and can inject a fault at the k-th read."""

    def __init__(self, path, faults=None):
        self.f = builtins.open(path, 'rb')
        self.name = path
        self.log = []
        self.faults = dict(faults or {})
        self.injected = 0
        self._pos = 0
        self.closed = False
        self.seek_delay = None      # seconds a seek issued from a worker thread takes (a slow handle: network file system)
        self.worker_seeks = 0

    def seek(self, off, whence=0):
        r = self.f.seek(off, whence)
        self._pos = self.f.tell()
        if self.seek_delay and threading.current_thread() is not threading.main_thread():
            # the suspension point between positioning the shared handle and reading from it
            self.worker_seeks += 1
            import time
            time.sleep(self.seek_delay)
        return r

    def tell(self):
        return self._pos

    def read(self, n=-1):
        k = len(self.log)
        b = self.f.read(n)
        kind = self.faults.get(k)
        if kind is not None:
            self.injected += 1
            if kind == 'exc':
                self.log.append((self._pos, n, -1))
                raise InjectedFault('injected read failure #%d' % k)
            if kind == 'half':
                b = b[:len(b) // 2]
            elif kind == 'minus1':
                b = b[:max(len(b) - 1, 0)]
            elif kind == 'empty':
                b = b''
        self.log.append((self._pos, n, len(b)))
        self._pos += len(b)
        return b

    def readinto(self, b):
        """Same observation point as read(): the bytes the storage delivers (after an injected fault: fewer) land in the caller's
        buffer and the count is returned, as for a real binary file."""
        mv = memoryview(b).cast('B')
        data = self.read(len(mv))
        mv[:len(data)] = data
        return len(data)

    def readable(self):
        return True

    def seekable(self):
        return True

    def writable(self):
        return False

    def close(self):
        self.closed = True
        self.f.close()

    def __enter__(self):
        return self

    def __exit__(self, *a):
        self.close()


class ShadowOpen:
    """Replacement for the name `open` inside a repository module: 'rb' opens of SGZ paths return
    a MonFile (so path-opened readers and the emulator are observed), everything else passes."""

    def __init__(self, faults_for=None):
        self.files = []
        self.faults_for = faults_for      # callable(path, nth_open) -> faults dict or None

    def __call__(self, path, mode='r', *a, **k):
        if mode == 'rb' and isinstance(path, str) and path.endswith(('.sgz', '.part')):
            faults = self.faults_for(path, len(self.files)) if self.faults_for else None
            mf = MonFile(path, faults)
            self.files.append(mf)
            return mf
        return builtins.open(path, mode, *a, **k)

    @property
    def log(self):
        out = []
        for f in self.files:
            out.extend(f.log)
        return out


# ---------------------------------------------------------------------------------------------
# storage, remote (download_blob contract of azure.storage.blob.BlobClient)

class FakeBlob:
    def __init__(self, path, faults=None, gate_order=None):
        self.data = builtins.open(path, 'rb').read()
        self.blob_name = path
        self.log = []
        self.faults = dict(faults or {})
        self.lock = threading.Lock()
        self.inflight = 0
        self.maxconc = 0
        self.injected = 0
        # completion-order control: request k waits for its gate; gates are released by release_gates()
        self.latency = None        # seconds every download takes (requests of one fan-out are then in flight together and complete almost at once)
        self.gated = gate_order is not None
        self.gates = {}
        self.completion = []

    def close(self):
        """(azure's BlobClient can be closed as well)"""

    def download_blob(self, offset=None, length=None):
        with self.lock:
            k = len(self.log)
            self.log.append((offset, length, None))
            gate = None
            if self.gated:
                gate = threading.Event()
                self.gates[k] = gate
        outer = self

        class _Downloader:
            def readall(self_):
                with outer.lock:
                    outer.inflight += 1
                    outer.maxconc = max(outer.maxconc, outer.inflight)
                try:
                    if gate is not None:
                        gate.wait(30)
                    kind = outer.faults.get(k)
                    b = outer.data[offset:offset + length]
                    if outer.latency:
                        import time
                        time.sleep(outer.latency)
                    if kind is not None:
                        with outer.lock:
                            outer.injected += 1
                        if kind == 'exc':
                            raise InjectedFault('injected blob failure #%d' % k)
                        if kind == 'half':
                            b = b[:len(b) // 2]
                        elif kind == 'minus1':
                            b = b[:max(len(b) - 1, 0)]
                        elif kind == 'empty':
                            b = b''
                    with outer.lock:
                        outer.log[k] = (offset, length, len(b))
                        outer.completion.append(k)
                    return b
                finally:
                    with outer.lock:
                        outer.inflight -= 1

        return _Downloader()


# ---------------------------------------------------------------------------------------------
# output files: record the true sequence of raw writes across all handles on a file

class _RecFileIO(io.FileIO):
    def __init__(self, path, mode, rec, hid):
        super().__init__(path, mode)
        self._rec, self._hid = rec, hid

    def write(self, b):
        off = self.tell()
        n = super().write(b)
        data = bytes(b[:n]) if n is not None else b''
        self._rec.raw.append((self._hid, off, data, threading.current_thread().name))
        if self._rec.on_raw_write:
            self._rec.on_raw_write(self._hid, off, data)
        return n

    def truncate(self, size=None):
        # a change of the file length is an operation on the file like a write: offset -2, payload = new length
        n = self.tell() if size is None else int(size)
        self._rec.raw.append((self._hid, -2, n.to_bytes(8, 'little'), threading.current_thread().name))
        return super().truncate(size)


class _RecBufferedWriter(io.BufferedWriter):
    def __init__(self, raw, rec, hid):
        super().__init__(raw)
        self._rec, self._hid = rec, hid

    def write(self, b):
        if self._rec.before_write:
            self._rec.before_write(self._hid, b)
        try:
            off = self.tell()
        except Exception:  # noqa
            off = -1
        self._rec.py.append((self._hid, len(b), threading.current_thread().name))
        self._rec.pydata.append((self._hid, off, bytes(b)))
        return super().write(b)

    def truncate(self, pos=None):
        n = self.tell() if pos is None else int(pos)
        self._rec.pydata.append((self._hid, -2, n.to_bytes(8, 'little')))
        self._rec.n_truncate += 1
        return super().truncate(pos)


class _RecBufferedRandom(io.BufferedRandom):
    def __init__(self, raw, rec, hid):
        super().__init__(raw)
        self._rec, self._hid = rec, hid

    def write(self, b):
        if self._rec.before_write:
            self._rec.before_write(self._hid, b)
        try:
            off = self.tell()
        except Exception:  # noqa
            off = -1
        self._rec.py.append((self._hid, len(b), threading.current_thread().name))
        self._rec.pydata.append((self._hid, off, bytes(b)))
        return super().write(b)

    def truncate(self, pos=None):
        n = self.tell() if pos is None else int(pos)
        self._rec.pydata.append((self._hid, -2, n.to_bytes(8, 'little')))
        self._rec.n_truncate += 1
        return super().truncate(pos)


def _set_length(buf, n):
    if n > len(buf):
        buf.extend(bytes(n - len(buf)))
    else:
        del buf[n:]


class RecordingOpen:
    """Shadow `open` for writer modules.  Buffering is unchanged (BufferedWriter over FileIO, default
    buffer size); .raw is what reached the OS and in which order, .py the Python-level write calls."""

    def __init__(self, only=None):
        self.raw = []
        self.py = []
        self.pydata = []
        self.handles = []
        self.only = only              # restrict recording to this path
        self.before_write = None
        self.on_raw_write = None
        self.n_truncate = 0
        self.initial = b''
        self.fds = {}
        self._patch_os()

    def _patch_os(self):
        """Length changes made below the file object (os.ftruncate / os.truncate / os.posix_fallocate on a recorded file)
        are operations of the write sequence too."""
        rec = self
        if getattr(os, '_vz_patched', False):
            os._vz_recorders.append(rec)
            return
        os._vz_patched, os._vz_recorders = True, [rec]
        real_ft, real_tr = os.ftruncate, os.truncate
        real_fa = getattr(os, 'posix_fallocate', None)

        def note(fd_or_path, n, grow_only=False):
            for r in os._vz_recorders:
                hid = r.fds.get(fd_or_path)
                if hid is None and isinstance(fd_or_path, (str, bytes)):
                    hid = next((i for i, (p_, _) in enumerate(r.handles) if os.path.abspath(p_) == os.path.abspath(fd_or_path)), None)
                if hid is not None:
                    if grow_only:
                        try:
                            cur = os.fstat(fd_or_path).st_size
                        except OSError:
                            cur = 0
                        if n <= cur:
                            return
                    ev = (hid, -2, int(n).to_bytes(8, 'little'))
                    r.raw.append(ev + (threading.current_thread().name,))
                    r.pydata.append(ev)
                    r.n_truncate += 1

        def ftruncate(fd, n):
            note(fd, n)
            return real_ft(fd, n)

        def truncate(path, n):
            note(path, n)
            return real_tr(path, n)
        os.ftruncate, os.truncate = ftruncate, truncate
        if real_fa is not None:
            def posix_fallocate(fd, offset, length):
                note(fd, offset + length, grow_only=True)
                return real_fa(fd, offset, length)
            os.posix_fallocate = posix_fallocate

    def __call__(self, path, mode='r', *a, **k):
        writing = any(c in mode for c in 'wa+')
        if not writing or 'b' not in mode or (self.only and os.path.abspath(path) != os.path.abspath(self.only)):
            return builtins.open(path, mode, *a, **k)
        hid = len(self.handles)
        if hid == 0:
            # what the file holds when the writer first opens it: nothing if that open truncates, otherwise whatever was there before
            pre = b''
            if 'w' not in mode and os.path.exists(path):
                with builtins.open(path, 'rb') as f_:
                    pre = f_.read()
            self.initial = pre
        fmode = mode.replace('b', '')
        raw = _RecFileIO(path, fmode, self, hid)
        self.handles.append((path, mode))
        self.fds[raw.fileno()] = hid
        if '+' in mode:
            return _RecBufferedRandom(raw, self, hid)
        return _RecBufferedWriter(raw, self, hid)

    def replay_py_prefix(self, n_py, cut=None):
        """File content if the first n_py Python-level writes had each reached the file atomically."""
        buf = bytearray(self.initial)
        for i, (hid, off, data) in enumerate(self.pydata[:n_py]):
            if off == -2:
                _set_length(buf, int.from_bytes(data, 'little'))
            if off < 0:
                continue
            if i == n_py - 1 and cut is not None:
                data = data[:cut]
            if off > len(buf):
                buf.extend(bytes(off - len(buf)))
            buf[off:off + len(data)] = data
        return bytes(buf)

    def replay_prefix(self, n_raw, cut=None):
        """File content after the first n_raw raw writes (the last one cut to `cut` bytes)."""
        buf = bytearray(self.initial)
        for i, (hid, off, data, _) in enumerate(self.raw[:n_raw]):
            if off == -2:
                _set_length(buf, int.from_bytes(data, 'little'))
            if off < 0:
                continue
            if i == n_raw - 1 and cut is not None:
                data = data[:cut]
            if off > len(buf):
                buf.extend(bytes(off - len(buf)))
            buf[off:off + len(data)] = data
        return bytes(buf)


# ---------------------------------------------------------------------------------------------
# native boundary contracts

class ZfpyProxy:
    """Stands in for the `zfpy` module inside seismic_zfp.loader / conversion_utils."""

    def __init__(self, real, enforce=True):
        self._real = real
        self.enforce = enforce
        self.n_compress = 0
        self.n_decompress = 0
        self.breaches = []

    def __getattr__(self, name):
        return getattr(self._real, name)

    def compress_numpy(self, arr, *a, **k):
        self.n_compress += 1
        rate = k.get('rate')
        problems = []
        if not isinstance(arr, np.ndarray) or arr.dtype != np.float32:
            problems.append('dtype %s' % getattr(arr, 'dtype', type(arr)))
        else:
            if not arr.flags['C_CONTIGUOUS']:
                problems.append('non-contiguous')
            if any(s % 4 for s in arr.shape):
                problems.append('shape %s not multiple of 4' % (arr.shape,))
            nd = sum(1 for s in arr.shape if s > 1) if 1 in arr.shape else arr.ndim
            if rate is not None and rate * 4 ** arr.ndim < 9:
                problems.append('rate %s below codec minimum for %dD' % (rate, arr.ndim))
        if problems:
            self.breaches.append(('compress', problems))
            if self.enforce and any('below codec minimum' in p for p in problems):
                raise ContractBreach('compress_numpy: ' + '; '.join(problems))
        return self._real.compress_numpy(arr, *a, **k)

    def _decompress(self, buf, ztype, shape, out=None, **k):
        self.n_decompress += 1
        rate = k.get('rate')
        nd = len(shape)
        cells = 1
        for s in shape:
            cells *= -(-int(s) // 4)
        bits = max(int(round(rate * 4 ** nd)), 9) if rate else 0
        need = (cells * bits + 7) // 8
        if len(buf) < need:
            self.breaches.append(('decompress', 'buffer %d bytes < %d needed for shape %s rate %s'
                                  % (len(buf), need, tuple(shape), rate)))
            if self.enforce:
                raise ContractBreach('zfpy._decompress: buffer %d bytes < %d needed for shape %s rate %s'
                                     % (len(buf), need, tuple(shape), rate))
        if out is not None:
            return self._real._decompress(buf, ztype, shape, out=out, **k)
        return self._real._decompress(buf, ztype, shape, **k)


def install_native_contracts(enforce=True):
    import zfpy
    import seismic_zfp.loader as L
    import seismic_zfp.conversion_utils as CU
    proxy = ZfpyProxy(zfpy, enforce)
    if hasattr(L, 'zfpy'):
        L.zfpy = proxy
    if hasattr(CU, 'zfpy'):
        CU.zfpy = proxy
    return proxy


# ---------------------------------------------------------------------------------------------
# yield injection: every statement boundary of the named repository modules, when executed by a pool thread, is a point where the
# interpreter may hand over to another thread.  sys.monitoring LINE events make a seeded share of them actual hand-overs (sleep(0)),
# so that interleavings a free run produces once in a thousand calls are produced in almost every call.  Nothing is forced that the
# interpreter could not do by itself.

class YieldInjector:
    def __init__(self, suffixes=('seismic_zfp/loader.py',), p=0.3, seed=0):
        import random
        self.suffixes, self.p = tuple(suffixes), p
        self.rng = random.Random(seed)
        self.yields = 0
        self.lines = 0
        self.tool = None

    def __enter__(self):
        import sys
        import time
        mon = getattr(sys, 'monitoring', None)
        if mon is None:
            return self
        for tid in (3, 4, 2):
            try:
                mon.use_tool_id(tid, 'vz-yield-injection')
                self.tool = tid
                break
            except ValueError:
                continue
        if self.tool is None:
            return self
        main = threading.main_thread()

        def on_line(code, line):
            if not code.co_filename.endswith(self.suffixes):
                return mon.DISABLE
            if threading.current_thread() is main:
                return None
            self.lines += 1
            if self.rng.random() < self.p:
                self.yields += 1
                time.sleep(0)
            return None
        mon.register_callback(self.tool, mon.events.LINE, on_line)
        mon.set_events(self.tool, mon.events.LINE)
        return self

    def __exit__(self, *a):
        import sys
        mon = getattr(sys, 'monitoring', None)
        if mon is not None and self.tool is not None:
            mon.set_events(self.tool, 0)
            mon.register_callback(self.tool, mon.events.LINE, None)
            mon.free_tool_id(self.tool)
            self.tool = None

"""C03 container conformance (every writer, compositions up to length 3) and the version field
(exhaustive encoding check, scm string grammar, gates)."""
import json
import os
import random
import subprocess

import numpy as np

from .. import conform, conv, env, files, oracles
from ..oracles import KEYS

ID, TITLE, LEVEL = 'C03', 'container conformance and version field', 'exploration'
RULE = ('cases: (writer) one source x route x setting x header-detection mode, file bytes checked against the '
        'specification and the generator\'s truth by the conformance checker incl. full O-SPEC decode of samples and all '
        '89 header fields; (chain) writer compositions convert -> {crop, re-block, export+convert} up to length 3 with '
        'the checker after every stage; (version-shard) exhaustive enumeration of major<4, minor<1024, patch<1024 x '
        '{dev, release}: tuple -> encoding -> int constructor -> tuple identity, encoding = mixed-radix formula, strict '
        'order along release order, string forms; (version-strings) setuptools_scm grammar; (gate) files written under '
        'pinned library versions / read under each convention. distinct = distinct case descriptor; non-trivial = a file '
        'was checked or >= 1000 versions enumerated')
ASSUMPTIONS = ['the version space is enumerated completely by the version-shard cases (exhaustive: true refers to that sub-space)',
               'docs/file-specification.md + conventions of DESIGN.md 2.3 define conformance']
DETECT = {'heuristic': 0, 'thorough': 10, 'exhaustive': 20, 'strip': 30}


def cases(tier, seed):
    rng = random.Random('C03/%s' % seed)
    out = []
    n = 100 if tier == 'quick' else 600
    settings3 = [(4, (4, 4, -1)), (2, (64, 64, 4)), (8, (8, 8, -1)), (1, (4, 4, -1)), (16, (4, 4, -1)), (0.5, (4, 4, -1)), (4, (4, 16, -1)),
                 (2, (4, 4, -1)), (32, (16, 16, 4)), (0.25, (4, 4, -1))]
    for i in range(n):
        geom = ['3d', '3d', 'irregular', '2d', 'numpy'][i % 5]
        rate, bs = rng.choice(settings3)
        det = ['heuristic', 'thorough', 'exhaustive', 'strip'][i % 4]
        if geom == '2d':
            rate, bs = rng.choice([(4, (1, 16, -1)), (8, (1, 4, -1)), (2, (1, 64, -1)), (1, (1, 256, 128)), (16, (1, 16, -1))])
            # trace counts with 4n mod 512 in {0, 4, 508, other}
            nT = rng.choice([128, 129, 127, 256, 5, 17, 2, 255])
            src = conv.src_desc(rng, '2d', (nT, rng.choice([5, 33, 64, 100])), how2d=rng.choice(['nonumbers', 'single-inline', 'single-crossline']),
                                hdr={'seed': rng.randrange(1 << 20), 'nfields': rng.randint(2, 6), 'inside': True})
        else:
            nI, nX = rng.choice([(8, 16), (16, 16), (9, 7), (5, 5), (2, 64), (127, 1 + 0 * 1), (3, 43), (10, 13), (16, 8), (4, 32)])
            nX = max(nX, 2)
            shape = (nI, nX, rng.choice([5, 17, 64, 100]))
            kw = {}
            if geom == 'irregular':
                nI, nX = max(nI, 3), max(nX, 3)
                shape = (nI, nX, shape[2])
                holes = conv.pick_holes(rng, nI, nX)
                kw = {'holes': holes, 'il': [rng.choice([1, 5, 100]), rng.choice([1, 2])], 'xl': [rng.choice([1, 20]), rng.choice([1, 3])]}
            src = conv.src_desc(rng, geom, shape, hdr={'seed': rng.randrange(1 << 20), 'nfields': rng.randint(2, 6), 'inside': True}, **kw)
        out.append({'id': 'writer:%d:%s:%s' % (i, geom, det), 'kind': 'writer', 'src': src, 'rate': rate, 'bs': list(bs), 'detection': det,
                    'reduce_iops': rng.random() < 0.3, 'cost': 2})
    for rel, cn in [('vds/small.vds', 'VdsConverter'), ('zgy/small-32bit.zgy', 'ZgyConverter'), ('zgy/small-float-samplerate.zgy', 'ZgyConverter')]:
        out.append({'id': 'writer:fx:' + rel, 'kind': 'fixture-writer', 'fixture': rel, 'converter': cn, 'rate': 4, 'cost': 2})
    # generated ZGY sources (pyzgy's writer): float sample axis, four derived header arrays, then optional crop / re-block
    for i in range(16 if tier == 'quick' else 120):
        rate, bs = rng.choice(settings3) if i % 3 == 0 else (2, (4, 4, -1)) if i % 3 == 2 else rng.choice([s_ for s_ in settings3 if s_[1][:2] == (4, 4)])
        nI, nX = rng.choice([(8, 16), (16, 16), (9, 7), (5, 5), (2, 64), (3, 43), (10, 13), (70, 66)])
        if i % 3 == 1:
            rate, bs = rng.choice([(16, (4, 4, -1)), (32, (4, 4, -1))])      # 128 / 64 samples per block: the 100..300-sample traces below span several
        out.append({'id': 'writer:zgy:%d' % i, 'kind': 'zgy-writer', 'zgy': conv.zgy_desc(rng, (nI, nX, rng.choice([5, 17, 64, 100]) if i % 3 != 1 else rng.choice([150, 300]))), 'rate': rate,
                    'bs': list(bs), 'stage': [None, 'crop', 'reblock'][i % 3], 'cseed': rng.randrange(1 << 30), 'cost': 3})
    # the repository's own test suite under the monitors (pytest plugin): postconditions on every writer entry point
    out.append({'id': 'repo-tests-under-monitors', 'kind': 'repo-tests', 'cost': 12})
    nchain = 60 if tier == 'quick' else 360
    for i in range(nchain):
        stages = [rng.choice(['crop', 'reblock', 'export']) for _ in range(rng.choice([1, 2, 2]))]
        nI, nX = rng.choice([(8, 16), (12, 12), (9, 7), (70, 66), (16, 32), (5, 5)])
        shape = (nI, nX, rng.choice([9, 17, 40]))
        src = conv.src_desc(rng, '3d', shape, fmt=rng.choice([1, 5]), hdr={'seed': rng.randrange(1 << 20), 'nfields': rng.randint(1, 4), 'inside': True},
                            valkind='smooth')
        if i % 6 == 5:
            # irregular source whose trace count and grid size pad to different 512-byte footer strides; the derived writers that accept
            # irregular files (re-block, export) follow
            nI, nX = rng.choice([(12, 12), (10, 13), (9, 15)])
            while True:
                holes = conv.pick_holes(rng, nI, nX, max_holes=40)
                if oracles.pad(4 * (nI * nX - len(holes)), 512) != oracles.pad(4 * nI * nX, 512):
                    break
            stages = [['reblock', 'export'][(i // 6) % 2]]
            src = conv.src_desc(rng, 'irregular', (nI, nX, rng.choice([9, 17])), fmt=5, hdr={'seed': rng.randrange(1 << 20), 'nfields': rng.randint(1, 3), 'inside': True},
                                valkind='smooth', holes=holes, il=[rng.choice([1, 5, 100]), rng.choice([1, 2])], xl=[rng.choice([1, 20]), rng.choice([1, 3])])
        rate, bs = (2, (4, 4, -1)) if 'reblock' in stages or rng.random() < 0.3 else rng.choice([(4, (4, 4, -1)), (8, (4, 4, -1)), (1, (4, 4, -1))])
        out.append({'id': 'chain:%d:%s' % (i, '-'.join(stages)), 'kind': 'chain', 'src': src, 'rate': rate, 'bs': list(bs), 'stages': stages,
                    'cseed': rng.randrange(1 << 30), 'detection': rng.choice(['heuristic', 'thorough']), 'cost': 4})
    # chains starting from files written under older conventions (the derived writers must keep THEIR source's conventions)
    for i, ver in enumerate([[0, 2, 1], [0, 1, 9], [0, 2, 2], [0, 1, 6], [0, 2, 9], [0, 2, 1]] * (1 if tier == 'quick' else 6)):
        rate, bs = [(2, (4, 4, 1024)), (4, (4, 4, 512))][i % 2]
        shape = (rng.choice([5, 9, 12]), rng.choice([7, 13, 16]), rng.choice([9, 30]))
        f = files.wspec_desc(rng, shape, rate, bs, version=ver, narr=rng.choice([2, 3, 5]), il=[rng.choice([1, 10]), rng.choice([1, 2])], xl=[5, 1])
        stages = [['crop'], ['reblock'], ['crop', 'reblock'], ['reblock', 'crop']][i % 4] if rate == 2 else ['crop']
        out.append({'id': 'chain-legacy:%d:%s:%s' % (i, '.'.join(map(str, ver)), '-'.join(stages)), 'kind': 'chain', 'file': f, 'rate': rate, 'bs': list(bs),
                    'stages': stages, 'cseed': rng.randrange(1 << 30), 'cost': 3})
    # version space: exhaustive, sharded by (major, minor range)
    nshard = 32
    per = 1024 // (nshard // 4)
    for major in range(4):
        for lo in range(0, 1024, per):
            out.append({'id': 'version-shard:%d:%d' % (major, lo), 'kind': 'version-shard', 'major': major, 'minor_lo': lo, 'minor_hi': lo + per, 'cost': 6})
    out.append({'id': 'version-strings', 'kind': 'version-strings', 'n': 2000 if tier == 'quick' else 20000, 'cost': 1})
    out.append({'id': 'version-gate-pairs', 'kind': 'version-gates', 'cost': 1})
    for v in ['0.2.9', '0.2.9.dev3+g1a2b3c4', '0.2.10', '0.3.0', '1.0.0', '0.2.9rc1', '0.2.9.dev0+d20260101', '3.1023.1023', '0.10.0.dev1+gabc.d20260101']:
        out.append({'id': 'gate-writer:' + v, 'kind': 'gate-writer', 'pin': v, 'cost': 3})
    out.append({'id': 'gate-writer:installed', 'kind': 'gate-writer', 'pin': None, 'cost': 3})
    for ver, rel in [((0, 1, 6), True), ((0, 1, 7), False), ((0, 1, 7), True), ((0, 2, 1), False), ((0, 2, 1), True), ((0, 2, 2), False),
                     ((0, 2, 2), True), ((0, 2, 9), True), ((0, 1, 5), True), ((1, 0, 0), False), ((0, 0, 1), True)]:
        out.append({'id': 'gate-reader:%s:%s' % ('.'.join(map(str, ver)), 'rel' if rel else 'dev'), 'kind': 'gate-reader', 'version': list(ver),
                    'released': rel, 'gseed': rng.randrange(1 << 20), 'cost': 1})
    return out


# ---------------------------------------------------------------------------------------------

def spec_fields(sp):
    arrs = sp.arrays()
    fs = sp.field_source()
    out = {}
    for k in KEYS:
        kind, v = fs[k]
        out[k] = np.full(sp.grid_traces, v, dtype=np.int64) if kind == 'const' else np.asarray(arrs[v], dtype=np.int64)
    return out


def pinned_version_tuple():
    v = env.DEFAULT_VERSION.split('.')
    return (int(v[0]), int(v[1]), int(v[2]), True)


def truth_for(src, rate, bs, detection, geom):
    is2d = geom == '2d'
    D = src['data']
    t = {'rate': rate, 'ntraces': src['ntraces'], 'version': pinned_version_tuple(), 'samples': src['samples']}
    if geom == 'numpy':
        t.update(shape=D.shape, ilines=src['ilines'], xlines=src['xlines'], source_code=20, data_image=oracles.image(D, rate))
        nI, nX, _ = D.shape
        t['fields'] = {189: np.repeat(src['ilines'], nX), 193: np.tile(src['xlines'], nI)}
        return t
    t['file_header'] = src['file_header']
    t['detect_code'] = DETECT[detection]
    t['source_code'] = 0
    if is2d:
        t.update(shape=D.shape, data_image=oracles.image(D, rate))
    else:
        t.update(shape=D.shape, ilines=src['ilines'], xlines=src['xlines'])
        t['data_image'] = oracles.image(D, rate, 'edge' if geom == '3d' else 'zero')
    exact = conv.must_be_exact(src, detection)
    if detection == 'strip':
        t['fields'] = {k: np.zeros(len(next(iter(conv.grid_fields(src, [1]).values()))), dtype=np.int64) for k in KEYS}
    elif exact:
        t['fields'] = conv.grid_fields(src, exact)
    if geom == 'irregular':
        t['field_mask'] = src['present'].reshape(-1)
    return t


def run_writer(case, ctx):
    src = conv.build_source(case['src'], ctx['scratch'])
    geom = case['src']['geom']
    out = ctx['scratch'].file('out.sgz')
    if src.get('segyio_structured'):
        return {'nontrivial': False, 'counters': {'skipped_segyio_infers_regular_cube': 1}}
    rate, bs = case['rate'], tuple(case['bs'])
    extra_fields = None
    if geom == 'numpy':
        # header dict of the NumPy route: any set of fields, with / without explicit inline and crossline arrays
        hr = random.Random('nphdr/%s' % case['id'])
        nI, nX, _ = src['data'].shape
        hd, extra_fields = {}, {}
        pool = [k for k in KEYS if k not in (189, 193)]
        for k in hr.sample([k for k in pool if k < 189], hr.randint(0, 2)) + hr.sample([k for k in pool if k > 193], hr.randint(0, 2)):
            a = np.array([[hr.randint(-2 ** 31, 2 ** 31 - 1) for _ in range(nX)] for _ in range(nI)], dtype=np.dtype(hr.choice(['int32', 'int64', '>i4', '>i8', '<i4'])))
            hd[int(k)] = a
            extra_fields[k] = a.astype(np.int64).reshape(-1)
        if hr.random() < 0.3:
            hd[189] = np.broadcast_to(np.asarray(src['ilines'])[:, None], (nI, nX)).astype('int32')
        if hr.random() < 0.3:
            hd[193] = np.broadcast_to(np.asarray(src['xlines']), (nI, nX)).astype('int64')
        conv.convert_numpy(src['data'], out, rate, bs, ilines=src['ilines'], xlines=src['xlines'], samples=src['samples'], trace_headers=hd)
    else:
        conv.convert_segy(src['path'], out, rate, bs, reduce_iops=case.get('reduce_iops', False), detection=case['detection'])
    truth = truth_for(src, rate, bs, case['detection'], geom)
    truth['bs'] = conv.resolve_bs(rate, bs)
    if extra_fields:
        truth['fields'].update(extra_fields)
        # the table names exactly the stored arrays: every supplied field must be backed by its own array, in table order
        truth['arrays'] = dict(extra_fields)
    bad, sp = conform.check(out, truth, tag='%s:' % geom)
    strata = ['writer:' + geom, 'detection:' + case['detection']]
    if sp is not None:
        strata.append('footer4n%%512=%d' % (sp.hlen % 512) if sp.hlen % 512 in (0, 4, 508) else 'footer4n%512=other')
        strata.append('narr>=3' if sp.narr >= 3 else 'narr<3')
    nfiles = 1
    if geom == '3d' and src['data'].shape[0] >= 3 and src['data'].shape[1] >= 3 and case['src'].get('sorting', 2) == 2:
        # the same converter class as a writer of a WINDOW of the source (its footer is sized for the window, not for the source: the two
        # trace counts are chosen to need different numbers of 512-byte pages whenever the grid allows)
        import zlib
        wr = random.Random(zlib.crc32(case['id'].encode()))
        D = src['data']
        nI, nX, nZ = D.shape
        best = None
        for _ in range(30):
            a = wr.randrange(0, nI - 1)
            b = wr.randrange(a + 2, nI + 1) if a + 2 <= nI else nI
            c = wr.randrange(0, nX - 1)
            d = wr.randrange(c + 2, nX + 1) if c + 2 <= nX else nX
            if (b - a, d - c) != (nI, nX):
                best = best or (a, b, c, d)
                if oracles.pad(4 * (b - a) * (d - c), 512) != oracles.pad(4 * nI * nX, 512):
                    best = (a, b, c, d)
                    break
        if best:
            a, b, c, d = best
            outw = ctx['scratch'].file('outw.sgz')
            conv.convert_segy(src['path'], outw, rate, bs, reduce_iops=case.get('reduce_iops', False), detection=case['detection'], window=best)
            tw = {'rate': rate, 'bs': conv.resolve_bs(rate, bs), 'shape': (b - a, d - c, nZ), 'ilines': src['ilines'][a:b], 'xlines': src['xlines'][c:d], 'samples': src['samples'],
                  'ntraces': (b - a) * (d - c), 'version': pinned_version_tuple(), 'file_header': src['file_header'], 'detect_code': DETECT[case['detection']], 'source_code': 0,
                  'data_image': oracles.image(D[a:b, c:d], rate)}
            if 'fields' in truth:
                tw['fields'] = {k: np.asarray(v).reshape(nI, nX)[a:b, c:d].reshape(-1) for k, v in truth['fields'].items()}
            bw, spw = conform.check(outw, tw, tag='3d-window:')
            bad += bw
            nfiles += 1
            strata.append('writer:3d-window')
            if spw is not None and oracles.pad(4 * (b - a) * (d - c), 512) != oracles.pad(4 * nI * nX, 512):
                strata.append('window-footer-pages-differ-from-source')
    return {'violations': bad, 'counters': {'files_checked': nfiles}, 'strata': strata}


def run_fixture_writer(case, ctx):
    import seismic_zfp.conversion as C
    path = os.path.join(env.TEST_DATA, case['fixture'])
    out = ctx['scratch'].file('out.sgz')
    with env.quiet():
        with getattr(C, case['converter'])(path) as c:
            c.run(out, bits_per_voxel=case['rate'])
    if case['converter'] == 'VdsConverter':
        import pyvds
        ref = np.ascontiguousarray(pyvds.tools.cube(path), dtype=np.float32)
    else:
        import pyzgy
        ref = np.ascontiguousarray(pyzgy.tools.cube(path), dtype=np.float32)
    bad, sp = conform.check(out, {'shape': ref.shape, 'rate': case['rate'], 'data_image': oracles.image(ref, case['rate']),
                                  'version': pinned_version_tuple()}, tag=case['converter'] + ':')
    return {'violations': bad, 'counters': {'files_checked': 1}, 'strata': ['writer:' + case['converter']]}


def run_zgy_writer(case, ctx):
    from seismic_zfp.conversion import SgzConverter
    from seismic_zfp.cropping import SgzCropper
    rng = random.Random(case['cseed'])
    sc = ctx['scratch']
    src = conv.build_source(case['zgy'], sc)
    D = src['data']
    rate, bs = case['rate'], tuple(case['bs'])
    out = sc.file('out.sgz')
    conv.convert_zgy(src['path'], out, rate, bs)
    truth = {'shape': D.shape, 'rate': rate, 'bs': conv.resolve_bs(rate, bs), 'ilines': src['ilines'], 'xlines': src['xlines'], 'samples': src['samples'],
             'ntraces': src['ntraces'], 'version': pinned_version_tuple(), 'source_code': 10, 'data_image': oracles.image(D, rate),
             'fields': conv.zgy_truth_arrays(src)}
    bad, sp = conform.check(out, truth, tag='zgy:')
    strata, n = ['writer:zgy-generated'], 1
    st = case.get('stage')
    if st and not bad and sp is not None:
        nxt = sc.file('s1.sgz')
        V, F = sp.decode(), spec_fields(sp)
        nI, nX, nZ = sp.shape
        t = None
        if st == 'reblock' and sp.rate == 2 and tuple(sp.bs) == (4, 4, 1024):
            with env.quiet():
                with SgzConverter(out) as c:
                    c.convert_to_adv_sgz(nxt)
            t = {'shape': sp.shape, 'rate': 2, 'bs': (64, 64, 4), 'ilines': sp.ilines(), 'xlines': sp.xlines(), 'samples': sp.samples(),
                 'ntraces': sp.ntr, 'data_image': V, 'fields': F, 'hash': sp.hash, 'version': sp.version, 'source_code': 10}
        elif st == 'crop' and tuple(sp.bs[:2]) == (4, 4):
            lo = rng.randrange(nI)
            ir = (lo, rng.randrange(lo + 1, nI + 1))
            lo = rng.randrange(nX)
            xr = (lo, rng.randrange(lo + 1, nX + 1))
            zr = None
            if nZ > sp.bs[2]:
                # crop of the sample range too (whole blocks along z, starting beyond the first block): the float sample axis of a ZGY-sourced file must follow
                lo = rng.randrange(sp.bs[2], nZ - 1) if nZ - 1 > sp.bs[2] else sp.bs[2]
                zr = (lo, rng.randrange(lo + 1, nZ + 1))
            W = [(a // b * b, min(n_, -(-h // b) * b)) for (a, h), n_, b in ((ir, nI, 4), (xr, nX, 4), (zr or (0, nZ), nZ, sp.bs[2]))]
            with env.quiet():
                with SgzCropper(out) as c:
                    c.write_cropped_file_by_indexes(nxt, ir, xr, zr)
            sl = tuple(slice(a, b) for a, b in W)
            strata.append('zgy-crop-z:%s' % ('yes' if zr and W[2][0] > 0 else 'no'))
            t = {'shape': (W[0][1] - W[0][0], W[1][1] - W[1][0], W[2][1] - W[2][0]), 'rate': sp.rate, 'bs': sp.bs, 'ilines': sp.ilines()[sl[0]], 'xlines': sp.xlines()[sl[1]],
                 'samples': sp.samples()[sl[2]], 'ntraces': (W[0][1] - W[0][0]) * (W[1][1] - W[1][0]), 'data_image': V[sl],
                 'fields': {k: a.reshape(nI, nX)[sl[0], sl[1]].reshape(-1) for k, a in F.items()}, 'version': sp.version}
        if t is not None:
            b, _ = conform.check(nxt, t, tag='zgy-%s:' % st)
            bad += b
            n += 1
            strata.append('zgy-stage:' + st)
    return {'violations': bad, 'counters': {'files_checked': n}, 'strata': strata}


def run_repo_tests(case, ctx):
    """The repository's tests with -p vz.pytest_plugin: every file a writer entry point returns during the suite is checked for
    conformance and decoded independently; native contracts and the range-read monitor run alongside."""
    import sys
    outp = ctx['scratch'].file('plugin.json')
    e = dict(os.environ, VZ_PLUGIN_OUT=outp)
    e['TMPDIR'] = ctx['scratch'].path
    p = subprocess.run([env.PY, '-m', 'pytest', '-q', '-p', 'no:cacheprovider', '-p', 'vz.pytest_plugin', '--timeout=900',
                        '--basetemp', ctx['scratch'].file('pytest-tmp'), 'tests'], cwd=env.REPO, env=e, capture_output=True, text=True, timeout=1500)
    if not os.path.exists(outp):
        return {'inconclusive': 'pytest plugin wrote no result (rc %s): %s' % (p.returncode, (p.stdout + p.stderr)[-400:])}
    r = json.load(open(outp))
    bad = [{'sig': 'repo-tests:' + v['sig'], 'detail': v['detail']} for v in r['violations']]
    if r['short_reads_passed_on']:
        bad.append({'sig': 'repo-tests:short-range-read-passed-on', 'detail': '%d of %d range reads' % (r['short_reads_passed_on'], r['range_reads'])})
    for b in r['contract_breaches']:
        bad.append({'sig': 'repo-tests:native-contract-breach', 'detail': b})
    counters = {'repo_tests_writer_calls': r['writer_calls'], 'repo_tests_files_checked': r['files_checked'], 'repo_tests_volumes_compared': r['volumes_compared'],
                'repo_tests_contract_evaluations': r['contract_compress'] + r['contract_decompress'], 'repo_tests_range_reads': r['range_reads'],
                'files_checked': r['files_checked']}
    res = {'violations': bad, 'counters': counters, 'strata': ['repo-tests'] + ['repo-tests:' + k for k in r['by_entry_point']], 'nontrivial': r['files_checked'] > 0}
    if r['files_checked'] == 0 or r['contract_compress'] == 0:
        res['inconclusive'] = 'the repository tests reached no monitored writer (%s)' % (p.stdout[-200:],)
    return res


def run_chain(case, ctx):
    import segyio
    from seismic_zfp.conversion import SgzConverter
    from seismic_zfp.cropping import SgzCropper
    rng = random.Random(case['cseed'])
    scratch = ctx['scratch']
    rate, bs = case['rate'], tuple(case['bs'])
    if 'file' in case:
        cur, _ = files.build(case['file'], scratch, name='s0.sgz')
        bad, sp = conform.check(cur, {'shape': tuple(case['file']['shape']), 'rate': rate, 'bs': bs}, tag='chain-stage0-wspec:')
    else:
        src = conv.build_source(case['src'], scratch)
        cur = scratch.file('s0.sgz')
        from .. import gen as _gen
        if case['detection'] == 'heuristic' and not _gen.heuristic_precondition(src['headers']):
            case = dict(case, detection='thorough')       # outside the heuristic's precondition headers may legitimately differ (C04)
        conv.convert_segy(src['path'], cur, rate, bs, detection=case['detection'])
        if src.get('segyio_structured'):
            return {'nontrivial': False, 'counters': {'skipped_segyio_infers_regular_cube': 1}}
        truth = truth_for(src, rate, bs, case['detection'], case['src']['geom'])
        truth['bs'] = conv.resolve_bs(rate, bs)
        bad, sp = conform.check(cur, truth, tag='chain-stage0-convert:')
    n, strata = 1, set()
    for si, st in enumerate(case['stages']):
        if bad or sp is None:
            break
        nxt = scratch.file('s%d.sgz' % (si + 1))
        V = sp.decode()
        F = spec_fields(sp)
        nI, nX, nZ = sp.shape
        if st == 'reblock':
            if not (sp.rate == 2 and tuple(sp.bs) == (4, 4, 1024)):
                continue
            if sp.ntr != sp.grid_traces:
                strata.add('irregular-reblock-chain')
            with env.quiet():
                with SgzConverter(cur) as c:
                    if rng.random() < 0.5 and sp.stored:
                        # the converter is a reader too: per-trace headers (unpadded arrays) read through it before it writes
                        c.gen_trace_header(sp.ntr - 1)
                        c.gen_trace_header(0)
                        strata.add('reblock-after-header-reads')
                    c.convert_to_adv_sgz(nxt)
            t = {'shape': sp.shape, 'rate': 2, 'bs': (64, 64, 4), 'ilines': sp.ilines(), 'xlines': sp.xlines(), 'samples': sp.samples(),
                 'ntraces': sp.ntr, 'data_image': V, 'fields': F, 'file_header': sp.file_header, 'hash': sp.hash, 'version': sp.version}
        elif st == 'crop':
            if tuple(sp.bs[:2]) != (4, 4):
                continue
            def rr(n_, b):
                lo = rng.randrange(n_)
                return lo, rng.randrange(lo + 1, n_ + 1)
            ir, xr, zr = rr(nI, 4), rr(nX, 4), rng.choice([None, rr(nZ, sp.bs[2])])
            W = []
            for (lo, hi), n_, b in ((ir, nI, sp.bs[0]), (xr, nX, sp.bs[1]), (zr or (0, nZ), nZ, sp.bs[2])):
                W.append((lo // b * b, min(n_, -(-hi // b) * b)))
            with env.quiet():
                with SgzCropper(cur) as c:
                    c.write_cropped_file_by_indexes(nxt, ir, xr, zr)
            sl = tuple(slice(a, b) for a, b in W)
            fh = bytearray(sp.file_header)
            fh[3220:3222] = int(W[2][1] - W[2][0]).to_bytes(2, 'big')
            t = {'shape': tuple(b - a for a, b in W), 'rate': sp.rate, 'bs': sp.bs, 'ilines': sp.ilines()[sl[0]], 'xlines': sp.xlines()[sl[1]],
                 'samples': sp.samples()[sl[2]], 'ntraces': (W[0][1] - W[0][0]) * (W[1][1] - W[1][0]), 'data_image': V[sl],
                 'fields': {k: a.reshape(nI, nX)[sl[0], sl[1]].reshape(-1) for k, a in F.items()}, 'file_header': bytes(fh), 'version': sp.version}
        else:  # export -> convert
            if nI < 2 or nX < 2:
                continue          # a single line re-converts as a 2D file: not a composition of 3D writers
            sgy = scratch.file('s%d.sgy' % (si + 1))
            with env.quiet():
                with SgzConverter(cur) as c:
                    c.convert_to_segy(sgy)
            irregular = sp.ntr != sp.grid_traces
            if irregular:
                # the export of an irregular file is an irregular SEG-Y again: its traces sit at the populated grid positions, holes are zero
                m = np.asarray(sp.mask()).reshape(-1)
                from .. import gen as _g
                tr = _g.source_traces(sgy)          # (segyio's trace iterator re-uses its buffers: copy every trace)
                with segyio.open(sgy, strict=False) as f:
                    if not f.unstructured:
                        continue          # segyio itself takes the export for a regular cube (C08's known finding): not decided here
                D = np.zeros((nI * nX, nZ), np.float32)
                D[np.flatnonzero(m)] = tr
                D = D.reshape(nI, nX, nZ)
            else:
                with segyio.open(sgy, strict=False) as f:
                    D = np.ascontiguousarray(segyio.tools.cube(f), dtype=np.float32)
            r2, b2 = rng.choice([(sp.rate, (4, 4, -1)), (4, (4, 4, -1)), (2, (4, 4, -1))])
            conv.convert_segy(sgy, nxt, r2, b2, detection='thorough')
            F2 = dict(F)
            t = {'shape': D.shape, 'rate': r2, 'bs': conv.resolve_bs(r2, b2), 'ilines': sp.ilines(), 'xlines': sp.xlines(), 'samples': sp.samples(),
                 'ntraces': sp.ntr, 'data_image': oracles.image(D, r2, 'zero' if irregular else 'edge'), 'fields': F2, 'file_header': sp.file_header}
            if irregular:
                # header values exist at populated positions only: a field that is constant over the traces may come back as a stored
                # array holding zeros at the holes
                t['fields'] = {k: np.where(m, a, 0) for k, a in F2.items()}
                t['field_mask'] = m
                strata.add('irregular-export-chain')
        strata.add('stage:' + st)
        if 'file' in case:
            strata.add('legacy-source:%s' % ('padded' if sp.post_021 else 'unpadded'))
        b, sp2 = conform.check(nxt, t, tag='chain-%s:' % st)
        bad += b
        n += 1
        cur, sp = nxt, sp2
    return {'violations': bad, 'counters': {'files_checked': n, 'chains': 1}, 'strata': sorted(strata) + ['chain-len:%d' % n]}


def run_version_shard(case, ctx):
    from seismic_zfp.version import SeismicZfpVersion as V
    M = case['major']
    bad, n = [], 0
    prev = None
    if case['minor_lo'] > 0:
        prev = V((M, case['minor_lo'] - 1, 1023))
    elif M > 0:
        prev = V((M - 1, 1023, 1023))
    for m in range(case['minor_lo'], case['minor_hi']):
        for p in range(1024):
            for dev in (True, False):
                t = (M, m, p, '.dev') if dev else (M, m, p)
                v = V(t)
                e = v.encoding
                n += 1
                if e != oracles.enc_version(M, m, p, not dev):
                    bad.append({'sig': 'version:encoding-not-mixed-radix', 'detail': '%s encodes to %d, formula gives %d' % (t, e, oracles.enc_version(M, m, p, not dev))})
                back = V(e)
                if back.to_tuple() != t or not (back == v):
                    bad.append({'sig': 'version:encoding-not-invertible', 'detail': '%s -> %d -> %s' % (t, e, back.to_tuple())})
                if prev is not None and not (v > prev and not (prev > v) and not (prev == v)):
                    bad.append({'sig': 'version:order-not-preserved', 'detail': '%s does not compare above its predecessor %s' % (t, prev.to_tuple())})
                prev = v
                if len(bad) > 3:
                    return {'violations': bad, 'counters': {'versions_enumerated': n}}
            if p % 97 == 0:
                for s, dev in (('%d.%d.%d' % (M, m, p), False), ('%d.%d.%d.dev5+g0abc123' % (M, m, p), True), ('%d.%d.%drc2' % (M, m, p), True)):
                    sv = V(s)
                    if sv.to_tuple() != ((M, m, p, '.dev') if dev else (M, m, p)):
                        bad.append({'sig': 'version:string-form-misparsed', 'detail': '%r -> %s' % (s, sv.to_tuple())})
    return {'violations': bad, 'counters': {'versions_enumerated': n}, 'strata': ['version-space'], 'nontrivial': n >= 1000}


def scm_strings(rng, n):
    """Version strings setuptools_scm's default schemes emit for this project, with intended value."""
    out = [('0.1.dev1+g45bcf9689', (0, 1, 0, '.dev')), ('0.1.dev1+g45bcf9689.d20260917', (0, 1, 0, '.dev'))]
    for _ in range(n):
        M, m, p = rng.choice([0, 0, 1, 3]), rng.choice([0, 1, 2, 9, 10, 100, 1023]), rng.choice([0, 1, 8, 9, 10, 99, 1023])
        h = '%07x' % rng.randrange(16 ** 7)
        d = 'd2026%02d%02d' % (rng.randint(1, 12), rng.randint(1, 28))
        N = rng.choice([0, 1, 7, 12, 123])
        form = rng.choice(['tag', 'dev', 'devdirty', 'dirty0', 'rc', 'rcdev', 'untagged', 'twopart'])
        if form == 'tag':
            out.append(('%d.%d.%d' % (M, m, p), (M, m, p)))
        elif form == 'dev':
            out.append(('%d.%d.%d.dev%d+g%s' % (M, m, p, N, h), (M, m, p, '.dev')))
        elif form == 'devdirty':
            out.append(('%d.%d.%d.dev%d+g%s.%s' % (M, m, p, N, h, d), (M, m, p, '.dev')))
        elif form == 'dirty0':
            out.append(('%d.%d.%d.dev0+%s' % (M, m, p, d), (M, m, p, '.dev')))
        elif form == 'rc':
            out.append(('%d.%d.%drc%d' % (M, m, p, N), (M, m, p, '.dev')))
        elif form == 'rcdev':
            out.append(('%d.%d.%drc%d.dev%d+g%s' % (M, m, p, N, N, h), (M, m, p, '.dev')))
        elif form == 'untagged':
            out.append(('0.1.dev%d+g%s' % (N, h), (0, 1, 0, '.dev')))
        else:
            out.append(('%d.%d' % (M, m), (M, m, 0)))
    return out


def run_version_strings(case, ctx):
    from seismic_zfp.version import SeismicZfpVersion as V
    bad, n = [], 0
    forms = set()
    for s, want in scm_strings(ctx['rng'], case['n']):
        n += 1
        try:
            got = V(s).to_tuple()
        except Exception as e:  # noqa
            bad.append({'sig': 'version:scm-string-unparseable', 'detail': '%r raises %s: %s' % (s, type(e).__name__, e)})
            continue
        if got != want:
            bad.append({'sig': 'version:scm-string-misparsed', 'detail': '%r -> %s, intended %s' % (s, got, want)})
    return {'violations': bad[:5], 'counters': {'version_strings': n}, 'strata': ['version-strings']}


def run_version_gates(case, ctx):
    from seismic_zfp.version import SeismicZfpVersion as V
    bad, n = [], 0
    order = []
    for g in [(0, 1, 6), (0, 2, 1)]:
        M, m, p = g
        order = [(M, m, p - 1), (M, m, p, '.dev'), (M, m, p), (M, m, p + 1, '.dev'), (M, m, p + 1), (M, m + 1, 0, '.dev'), (M, m + 1, 0), (M + 1, 0, 0, '.dev')]
        for i, a in enumerate(order):
            for j, b in enumerate(order):
                n += 1
                va, vb = V(a), V(b)
                if (va > vb) != (i > j) or (va == vb) != (i == j):
                    bad.append({'sig': 'version:gate-comparison-wrong', 'detail': '%s vs %s: > gives %s, == gives %s' % (a, b, va > vb, va == vb)})
        gate = V('%d.%d.%d' % g)
        for i, a in enumerate(order):
            n += 1
            if (V(a) > gate) != (i > 2):
                bad.append({'sig': 'version:gate-comparison-wrong', 'detail': '%s > gate %s gives %s' % (a, g, V(a) > gate)})
    return {'violations': bad[:5], 'counters': {'gate_pairs': n}, 'strata': ['version-gates']}


GATE_CHILD = r'''
import sys, json, numpy as np
sys.path.insert(0, %(verif)r)
from vz import conv, env, oracles, conform, gen
sc = env.Scratch(prefix='vz-gate-')
try:
    import random
    rng = random.Random(5)
    src = conv.build_source({'geom': '3d', 'shape': [5, 26, 9], 'il': [10, 2], 'xl': [100, 1], 'dt': 2000, 't0': 8, 'fmt': 5, 'ext': 0,
                             'cubeseed': 3, 'valkind': 'smooth', 'hdr': {'seed': 11, 'nfields': 3, 'inside': True}, 'sorting': 2}, sc)
    out = sc.file('o.sgz')
    conv.convert_segy(src['path'], out, 4, (4, 4, -1), detection='thorough')
    sp = oracles.Spec(out)
    from seismic_zfp.read import SgzReader
    res = {'stamped': list(sp.version)}
    with SgzReader(out) as r:
        res['zslices_ok'] = bool(len(r.zslices) == 9 and np.allclose(r.zslices, src['samples']))
        res['tracecount_ok'] = bool(r.tracecount == 130)
        F = conv.grid_fields(src)
        okh = True
        for k in r.stored_header_keys:
            okh = okh and bool(np.array_equal(np.asarray(r.get_tracefield_values(int(k))).reshape(-1), F[int(k)]))
        res['headers_ok'] = okh
        res['volume_ok'] = bool(r.read_volume().tobytes() == oracles.image(src['data'], 4).tobytes())
    b, _ = conform.check(out, {'shape': (5, 26, 9), 'samples': src['samples'], 'fields': conv.grid_fields(src), 'ntraces': 130})
    res['conformance'] = [x['sig'] for x in b]
    print('RESULT ' + json.dumps(res))
finally:
    sc.cleanup()
'''


def run_gate_writer(case, ctx):
    """Write under a pinned library version (separate process), then read: the stamped version must be the pinned
    one and the reader must apply the conventions the writer used."""
    scratch = ctx['scratch']
    pin = case['pin']
    bad = []
    if pin is None:
        e = dict(os.environ)
        e['PYTHONPATH'] = os.pathsep.join([env.REPO, env.VERIF])
        e['PYTHONWARNINGS'] = 'ignore'
        label = 'installed-metadata'
    else:
        d = scratch.file('pin')
        os.makedirs(d, exist_ok=True)
        env.make_pin(d, pin)
        e = env.child_env(d)
        label = pin
    p = subprocess.run([env.PY, '-c', GATE_CHILD % {'verif': env.VERIF}], capture_output=True, text=True, env=e, timeout=600, cwd=env.VERIF)
    line = [l for l in p.stdout.splitlines() if l.startswith('RESULT ')]
    if not line:
        return {'violations': [{'sig': 'gate-writer:%s:conversion-failed' % ('installed' if pin is None else 'pinned'),
                                'detail': 'writing under version %s failed: %s' % (label, p.stderr[-600:])}], 'counters': {'gate_writer_runs': 1}}
    res = json.loads(line[0][7:])
    if pin is not None:
        from seismic_zfp.version import SeismicZfpVersion as V
        want = V(pin).to_tuple()
        want = (want[0], want[1], want[2], len(want) == 3)
        if tuple(res['stamped']) != want:
            bad.append({'sig': 'gate-writer:stamped-version-differs', 'detail': 'pinned %s stamped %s' % (pin, res['stamped'])})
    prob = [k for k in ('zslices_ok', 'tracecount_ok', 'headers_ok', 'volume_ok') if not res[k]] + res['conformance']
    if prob:
        sig = 'gate-writer:untagged-install-stamps-pre-gate-version' if pin is None else 'gate-writer:reader-applies-other-conventions'
        bad.append({'sig': sig, 'detail': 'library version %s stamped %s; reading the file back: %s' % (label, res['stamped'], prob)})
    return {'violations': bad, 'counters': {'gate_writer_runs': 1, 'files_checked': 1}, 'strata': ['gate-writer']}


def run_gate_reader(case, ctx):
    """A file written (by W-SPEC) under the conventions of version V must be read with exactly those."""
    from seismic_zfp.read import SgzReader
    r0 = random.Random(case['gseed'])
    nI, nX, nZ = r0.choice([(5, 26, 9), (4, 32, 7), (8, 16, 11)])     # 4*nI*nX: 520 (not aligned), 512 (aligned)
    d = {'kind': 'wspec', 'shape': [nI, nX, nZ], 'rate': 4, 'bs': [4, 4, 512], 'version': case['version'], 'il': [3, 2], 'xl': [7, 1], 't0': 12,
         'dt': r0.choice([2000, 4000, 1000]), 'narr': 3, 'cubeseed': 5, 'valkind': 'smooth'}
    cube = __import__('vz.gen', fromlist=['cube']).cube((nI, nX, nZ), 5)
    arrays = files.header_arrays_for(d, nI * nX, 5)
    path = ctx['scratch'].file('g.sgz')
    oracles.write_sgz(path, cube, 4, (4, 4, 512), ilines=files.axis(3, 2, nI), xlines=files.axis(7, 1, nX), t0_ms=12, dt_us=d['dt'], arrays=arrays,
                      consts={115: nZ}, version=tuple(case['version']), released=case['released'])
    bad = []
    with SgzReader(path) as r:
        want = 12 + d['dt'] / 1000.0 * np.arange(nZ)
        if len(r.zslices) != nZ or not np.allclose(r.zslices, want):
            bad.append({'sig': 'gate-reader:sample-interval-convention', 'detail': 'version %s released=%s: zslices %s..., written %s...'
                        % (case['version'], case['released'], r.zslices[:3], want[:3])})
        for k, a in arrays.items():
            got = np.asarray(r.get_tracefield_values(k)).reshape(-1)
            if not np.array_equal(got, np.asarray(a).astype(np.int32)):
                bad.append({'sig': 'gate-reader:footer-stride-convention', 'detail': 'version %s released=%s: array %d read from the wrong place'
                            % (case['version'], case['released'], k)})
                break
        if r.tracecount != nI * nX:
            bad.append({'sig': 'gate-reader:trace-count-convention', 'detail': 'tracecount %d' % r.tracecount})
    return {'violations': bad, 'counters': {'gate_reader_files': 1, 'files_checked': 1},
            'strata': ['gate-reader', 'gate-reader:%s' % ('aligned' if (4 * nI * nX) % 512 == 0 else 'unaligned')]}


def run_case(case, ctx):
    k = case['kind']
    res = {'writer': run_writer, 'repo-tests': run_repo_tests, 'zgy-writer': run_zgy_writer, 'fixture-writer': run_fixture_writer, 'chain': run_chain, 'version-shard': run_version_shard,
           'version-strings': run_version_strings, 'version-gates': run_version_gates, 'gate-writer': run_gate_writer,
           'gate-reader': run_gate_reader}[k](case, ctx)
    res.setdefault('key', case['id'])
    return res


def sample_view(case, res):
    return {k: v for k, v in case.items() if k not in ('cost', 'src')} | ({'src': case['src']} if 'src' in case else {})


def finalize(tier, cases, results, counters, strata):
    reasons = []
    need = ['writer:3d', 'writer:3d-window', 'window-footer-pages-differ-from-source', 'writer:irregular', 'writer:2d', 'writer:numpy', 'irregular-reblock-chain', 'irregular-export-chain', 'repo-tests', 'writer:VdsConverter', 'writer:ZgyConverter', 'writer:zgy-generated', 'zgy-stage:crop', 'zgy-crop-z:yes', 'zgy-stage:reblock', 'stage:crop',
            'stage:reblock', 'stage:export', 'detection:heuristic', 'detection:thorough', 'detection:exhaustive', 'detection:strip',
            'version-space', 'version-strings', 'version-gates', 'gate-writer', 'gate-reader', 'footer4n%512=0', 'narr>=3', 'legacy-source:unpadded', 'legacy-source:padded']
    for s in need:
        if s not in strata:
            reasons.append('required stratum not hit: ' + s)
    extra = {}
    if counters.get('versions_enumerated', 0) == 4 * 1024 * 1024 * 2:
        extra['exhaustive'] = True
        extra['exhaustive_scope'] = 'version space major<4 x minor<1024 x patch<1024 x {dev,release} = 8388608 values'
    else:
        reasons.append('version space not enumerated completely (%s of 8388608)' % counters.get('versions_enumerated'))
    return extra, reasons

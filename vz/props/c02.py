"""C02 access-path coherence: every read API is a slice of the volume an independent decoder
(written from the specification alone) obtains from the same file."""
import random

import numpy as np

from .. import env, files, monitors, oracles, reads

ID, TITLE, LEVEL = 'C02', 'access-path coherence', 'exploration'
RULE = ('case = one SGZ file (every fixture under test_data; files written by the harness from the specification '
        'for every layout family x bit rate x format-version convention, 3D/irregular/2D) on which every public '
        'read path is driven with arguments stratified on residues mod 4 and mod blockshape and compared bitwise '
        'with the corresponding slice of the O-SPEC decode; distinct = distinct (layout, rate, shape, version, '
        'kind); non-trivial = at least 20 read results compared and the file spans more than one cell')
ASSUMPTIONS = ['zfpy decodes a single 4 KiB block correctly (O-SPEC uses it per block)',
               'docs/file-specification.md plus the two conventions listed in DESIGN.md 2.3 define the format']


def cases(tier, seed):
    rng = random.Random('C02/%s' % seed)
    out = []
    for rel in files.fixtures():
        out.append({'id': 'fix:' + rel, 'file': {'kind': 'fixture', 'rel': rel}, 'nops': 60 if tier == 'quick' else 400,
                    'cost': 2})
    # a sample axis that has the coordinate 0 beyond its first sample (recording starts before time zero)
    for j, (t0_, dt_) in enumerate([(-8, 2000), (-12, 4000), (-1, 250)]):
        out.append({'id': 'w3:zero-interior:%d' % j, 'file': files.wspec_desc(rng, (5, 6, 13), 4, (4, 4, 512), t0=t0_, dt=dt_, version=[0, 2, 9], f64=None), 'nops': 40, 'cost': 1})
    reps = 3 if tier == 'quick' else 12
    cap = 600_000 if tier == 'quick' else 6_000_000
    for rep in range(reps):
        for fam, lays in files.LAYOUTS_3D.items():
            for rate, bs in lays:
                shape = files.small_shape_for(bs, rng, blocks=(1, 3) if rep else (2, 3), cap=cap)
                d = files.wspec_desc(rng, shape, rate, bs)
                out.append({'id': 'w3:%s:%s:%s:%d' % (fam, rate, 'x'.join(map(str, bs)), rep), 'file': d,
                            'nops': 80 if tier == 'quick' else 300, 'cost': 3})
        if rep == 0:
            # many 4-inline units (more than twice the number of cores, not a multiple of it): volume reads are split among worker threads
            import os as _os
            nc = _os.cpu_count() or 1
            for nun in (2 * nc + 1, 3 * nc + 1):
                d = files.wspec_desc(rng, (4 * nun - rng.choice([0, 1, 3]), 6, 9), 8, (4, 4, 256), narr=1, version=[0, 2, 9])
                out.append({'id': 'w3:tall:%d' % nun, 'file': d, 'nops': 40, 'cost': 2})
        for rate, bs in files.LAYOUTS_2D:
            nT = rng.choice([2, 3, 5, bs[1] - 1, bs[1], bs[1] + 1, 2 * bs[1] + 3])
            nZ = rng.choice([2, 7, bs[2] - 1, bs[2], bs[2] + 1]) if bs[2] <= 1024 else rng.choice([2, 50, 301])
            if bs[2] <= 512 and rep % 2 == 0:
                nZ = rng.choice([2 * bs[2] + 1, 3 * bs[2] - 2])         # several blocks along the sample axis
                if bs[1] <= 16:
                    nT = max(nT, 2 * bs[1] + 1)                         # ... and several trace groups, each of several blocks
            d = files.wspec_desc(rng, (max(2, nT), nZ), rate, bs, version=[0, 2, 9])
            out.append({'id': 'w2:%s:%s:%d' % (rate, 'x'.join(map(str, bs)), rep), 'file': d, 'nops': 60, 'cost': 1})
        # irregular (zero holes, tracecount < grid)
        for rate, bs in [(4, (4, 4, 512)), (8, (8, 8, 64)), (2, (64, 64, 4))]:
            nI, nX = rng.randint(3, 9), rng.randint(3, 9)
            nh = rng.randint(1, max(1, nI * nX // 3))
            holes = sorted(rng.sample(range(1, nI * nX), nh))
            d = files.wspec_desc(rng, (nI, nX, rng.randint(5, 40)), rate, bs, version=[0, 2, 9], holes=holes,
                                 il=[rng.choice([1, 5, 100]), rng.choice([1, 2])], narr=rng.choice([2, 3]))
            out.append({'id': 'wi:%s:%s:%d' % (rate, 'x'.join(map(str, bs)), rep), 'file': d, 'nops': 60, 'cost': 1})
        # files with an axis of length 1 (what a one-line crop produces)
        for j, shape in enumerate([(1, 9, 20), (7, 1, 20), (6, 5, 1), (1, 1, 9), (1, 6, 1)]):
            rate, bs = [(4, (4, 4, 512)), (8, (8, 8, 64)), (2, (64, 64, 4))][(j + rep) % 3]
            d = files.wspec_desc(rng, shape, rate, bs, version=[0, 2, 9], narr=2)
            out.append({'id': 'w1:%s:%s:%d' % ('x'.join(map(str, shape)), 'x'.join(map(str, bs)), rep), 'file': d, 'nops': 40, 'cost': 1})
        # repository writer files too (any file is a legitimate input of this property)
        for rate, bs in [(4, (4, 4, -1)), (2, (64, 64, 4)), (8, (8, 8, -1))]:
            rbs = [b if b > 0 else int(32768 // (rate * 16 if bs[0] == 4 else rate * 64)) for b in bs]
            shape = files.small_shape_for(rbs, rng, blocks=(1, 2), cap=cap)
            d = files.wspec_desc(rng, shape, rate, bs, kind='numpy', il=[rng.choice([0, 3]), 1], xl=[5, 2])
            out.append({'id': 'np:%s:%s:%d' % (rate, 'x'.join(map(str, bs)), rep), 'file': d, 'nops': 60, 'cost': 2})
    return out


def grid_map(sp):
    if sp.is2d or sp.ntr == sp.grid_traces:
        return None
    return np.flatnonzero(sp.mask())


def run_case(case, ctx):
    import seismic_zfp
    from seismic_zfp.read import SgzReader
    from seismic_zfp import tools
    rng = ctx['rng']
    try:
        path, truth = files.build(case['file'], ctx['scratch'])
    except Exception as e:  # noqa  (repository writer unavailable: not this property's concern)
        if case['file']['kind'] == 'numpy':
            return {'nontrivial': False, 'counters': {'writer_unavailable': 1}}
        raise
    sp = oracles.Spec(path)
    V = sp.decode()
    bad, n = [], 0
    strata = set()
    fam = 'fixture' if case['file']['kind'] == 'fixture' else case['id'].split(':')[0]
    strata.add('kind:' + fam)
    strata.add('rate:%s' % sp.rate)
    strata.add('layout:' + ('2d' if sp.is2d else 'default' if sp.bs[:2] == (4, 4) else 'zslice' if sp.bs[2] == 4
                            else 'general'))
    strata.add('version:%d.%d.%d' % sp.version[:3])
    nops = case['nops']
    # a third of the files are read through a handle whose seeks are slow when they come from pool threads (network file system):
    # nothing changes for a reader that serialises its positioned reads on the one handle it owns
    import zlib
    slow = zlib.crc32(case['id'].encode()) % 3 == 0
    mf = None
    if slow:
        mf = monitors.MonFile(path)
        mf.seek_delay = 0.0002
        strata.add('slow-seek-handle')
    import contextlib
    with (monitors.YieldInjector(seed=zlib.crc32(case['id'].encode())) if slow else contextlib.nullcontext()) as yi, SgzReader(mf if slow else path) as r:
        if sp.is2d:
            nT, nZ = V.shape
            ops = reads.ops_2d(nT, nZ, sp.bs, rng, nops)
            if nT <= 64:
                ops += [('get_trace', (i,)) for i in range(nT)]
            b, k = reads.check_ops(r, ops, lambda op: reads.expected_2d(V, op))
            bad += b
            n += k
            # ... and with ordinals carried by NumPy integers (any dtype that holds them)
            b, k = reads.check_ops(r, [reads.numpy_args(op, rng) for op in rng.sample(ops, min(len(ops), 12))], lambda op: reads.expected_2d(V, op), tag='numpy-int-args:')
            bad += b
            n += k
        else:
            nI, nX, nZ = V.shape
            gm = grid_map(sp)
            if gm is not None:
                strata.add('irregular')
            ops = reads.ops_3d((nI, nX, nZ), sp.bs, rng, nops, tracecount=sp.ntr)
            # a volume read piecewise: equal-sized neighbouring slabs one after the other
            for ax, n_ in ((0, nI), (1, nX), (2, nZ)):
                if n_ >= 8:
                    lo = rng.randrange(0, n_ - 7) // 4 * 4
                    a_, b_ = [[0, nI], [0, nX], [0, nZ]], [[0, nI], [0, nX], [0, nZ]]
                    a_[ax], b_[ax] = [lo, lo + 4], [lo + 4, lo + 8]
                    ops += [('read_subvolume', tuple(v for r_ in a_ for v in r_)), ('read_subvolume', tuple(v for r_ in b_ for v in r_))]
            small = nI * nX <= 150
            if small:
                ops += [('read_inline', (i,)) for i in range(nI)] + [('read_crossline', (x,)) for x in range(nX)]
                ops += [('read_zslice', (z,)) for z in sorted(set(list(range(min(nZ, 12))) + [nZ - 1, nZ // 2]))]
                ops += [('get_trace', (t,)) for t in range(sp.ntr)]
                ops += [('read_correlated_diagonal', (d,)) for d in range(-nX + 1, nI)]
                ops += [('read_anticorrelated_diagonal', (d,)) for d in range(nI + nX - 1)]
            # (the handle belongs to the caller, who may use it between two calls of the reader - here: looks at the first bytes of the file)
            def peek():
                mf.seek(0)
                mf.f.read(16)
            b, k = reads.check_ops(r, ops, lambda op: reads.expected_3d(V, op, gm), between=peek if slow else None)
            bad += b
            n += k
            # ... and with ordinals carried by NumPy integers (any dtype that holds them)
            b, k = reads.check_ops(r, [reads.numpy_args(op, rng) for op in rng.sample(ops, min(len(ops), 16))], lambda op: reads.expected_3d(V, op, gm), tag='numpy-int-args:')
            bad += b
            n += k
            # by line number / coordinate
            il, xl, zs = sp.ilines(), sp.xlines(), sp.samples()
            cops, exp = [], {}
            for i in reads.residue_points(nI, sp.bs[0], rng, 2):
                cops.append(('read_inline_number', (int(il[i]),)))
                exp[cops[-1]] = V[i]
            for x in reads.residue_points(nX, sp.bs[1], rng, 2):
                cops.append(('read_crossline_number', (int(xl[x]),)))
                exp[cops[-1]] = V[:, x]
            for z in reads.residue_points(nZ, sp.bs[2], rng, 2):
                cops.append(('read_zslice_coord', (float(r.zslices[z]),)))
                exp[cops[-1]] = V[:, :, z]
            if gm is None and nZ > 1:       # (an exclusive stop COORDINATE needs a sample interval: undefined for a single-sample axis)
                for _ in range(6):
                    t = rng.randrange(nI * nX)
                    lo, hi = reads.rand_range(nZ, sp.bs[2], rng)
                    zhi = float(r.zslices[hi]) if hi < nZ else float(r.zslices[-1] + (r.zslices[1] - r.zslices[0] if nZ > 1 else 1.0))
                    cops.append(('get_trace_by_coord', (t, float(r.zslices[lo]), zhi)))
                    exp[cops[-1]] = V[t // nX, t % nX, lo:hi]
                cops.append(('get_trace_by_coord', (0,)))
                exp[cops[-1]] = V[0, 0]
                # the coordinate 0 as a window bound, where the axis has it beyond its first sample (recording starts before time zero)
                z0 = [j for j in range(1, nZ) if float(r.zslices[j]) == 0.0]
                if z0:
                    j0 = z0[0]
                    t = rng.randrange(nI * nX)
                    if j0 < nZ - 1:
                        cops.append(('get_trace_by_coord', (t, 0.0, float(r.zslices[-1]))))
                        exp[cops[-1]] = V[t // nX, t % nX, j0:nZ - 1]
                    cops.append(('get_trace_by_coord', (t, float(r.zslices[0]), 0.0)))
                    exp[cops[-1]] = V[t // nX, t % nX, 0:j0]
                    strata.add('coordinate-zero-interior')
            b, k = reads.check_ops(r, cops, lambda op: exp[op])
            bad += b
            n += k
    # segyio-style accessors, tools.cube, xarray (fresh objects: lazy paths are what runs)
    if not sp.is2d:
        nI, nX, nZ = V.shape
        il, xl = sp.ilines(), sp.xlines()
        with seismic_zfp.open(path) as f:
            def acc(name, fn, expv):
                nonlocal n
                n += 1
                try:
                    got = fn()
                except Exception as e:  # noqa
                    bad.append({'sig': 'emulator.%s:raised-%s' % (name, type(e).__name__), 'detail': repr(e)})
                    return
                d = reads.same(got, expv)
                if d:
                    bad.append({'sig': 'emulator.%s:%s-mismatch' % (name, 'shape' if d.startswith('shape') else 'value'),
                                'detail': '%s: %s' % (name, d)})
            for i in reads.residue_points(nI, sp.bs[0], rng, 1)[:6]:
                acc('iline[n]', lambda i=i: f.iline[int(il[i])], V[i])
            for x in reads.residue_points(nX, sp.bs[1], rng, 1)[:6]:
                acc('xline[n]', lambda x=x: f.xline[int(xl[x])], V[:, x])
            # slices over line NUMBERS (the accessor's documented semantics: the numbers range(start, stop, step) that exist in the file,
            # defaults = whole axis in the direction of the step); lowest line 0 and negative numbers included - they are numbers, not positions
            for name_, ax_, take in (('iline', il, lambda k: V[k]), ('xline', xl, lambda k: V[:, k])):
                if len(ax_) < 2:
                    continue
                inc_, lo_, hi_ = abs(int(ax_[1] - ax_[0])), int(min(ax_)), int(max(ax_))
                pos_ = {int(v_): k_ for k_, v_ in enumerate(ax_)}
                mid_ = int(ax_[len(ax_) // 2])
                for (a_, b_, c_) in [(None, None, None), (None, None, -1), (None, None, -inc_), (mid_, None, -inc_), (None, mid_, inc_), (lo_, hi_ + 1, 2 * inc_),
                                     (hi_, lo_ - 1, -inc_), (hi_ + 5 * inc_, lo_ - 3 * inc_, -inc_)]:
                    stp = 1 if c_ is None else c_
                    st_ = a_ if a_ is not None else (lo_ if stp > 0 else hi_)
                    sp_ = b_ if b_ is not None else (hi_ + 1 if stp > 0 else lo_ - 1)
                    want_ = [take(pos_[v_]) for v_ in range(st_, sp_, stp) if v_ in pos_]
                    if len(want_) > 40:
                        continue
                    acc('%s[a:b:c]' % name_, lambda a_=a_, b_=b_, c_=c_: np.array(getattr(f, name_)[a_:b_:c_]),
                        np.array(want_) if want_ else np.zeros((0,)))
            for z in reads.residue_points(nZ, sp.bs[2], rng, 1)[:6]:
                acc('depth_slice[i]', lambda z=z: f.depth_slice[z], V[:, :, z])
            acc('depth_slice[-1]', lambda: f.depth_slice[-1], V[:, :, -1])
            gm = grid_map(sp)
            for _ in range(5):
                t = rng.randrange(sp.ntr)
                g = t if gm is None else gm[t]
                acc('trace[i]', lambda t=t: f.trace[t], V[g // nX, g % nX])
            g = (sp.ntr - 1) if gm is None else gm[sp.ntr - 1]
            acc('trace[-1]', lambda: f.trace[-1], V[g // nX, g % nX])
            a, b2 = reads.rand_range(sp.ntr, 4, rng)
            st = rng.choice([1, 2, 3])
            acc('trace[a:b:c]', lambda: np.array(f.trace[a:b2:st]),
                np.array([V[(t if gm is None else gm[t]) // nX, (t if gm is None else gm[t]) % nX]
                          for t in range(a, b2, st)]))
            a, b2 = reads.rand_range(nZ, sp.bs[2], rng)
            acc('depth_slice[a:b]', lambda: np.array(f.depth_slice[a:b2]),
                np.array([V[:, :, z] for z in range(a, b2)]))
            # subvolume[a:b:c, ...] in coordinates with steps (integer sample axis required by the accessor)
            zi = f.subvolume.zslices_int
            if len(set(zi.tolist())) == nZ and nZ > 1 and nI > 1 and nX > 1:
                for _ in range(6):
                    (a0, a1), (b0, b1), (c0, c1) = (reads.rand_range(nI, sp.bs[0], rng), reads.rand_range(nX, sp.bs[1], rng),
                                                    reads.rand_range(nZ, sp.bs[2], rng))
                    s0, s1, s2 = rng.choice([1, 1, 2, 3]), rng.choice([1, 1, 2]), rng.choice([1, 1, 2, 5])

                    def coord(axis, i, step):
                        return int(axis[i]) if i < len(axis) else int(axis[-1] + (axis[1] - axis[0]))
                    sl = (slice(coord(il, a0, 0), coord(il, a1, 0), s0 * int(il[1] - il[0])),
                          slice(coord(xl, b0, 0), coord(xl, b1, 0), s1 * int(xl[1] - xl[0])),
                          slice(coord(zi, c0, 0), coord(zi, c1, 0), s2 * int(zi[1] - zi[0])))
                    acc('subvolume[a:b:c]', lambda sl=sl: f.subvolume[sl], V[a0:a1:s0, b0:b1:s1, c0:c1:s2])
                acc('subvolume[:,:,:]', lambda: f.subvolume[:, :, :], V)
        n += 1
        d = reads.same(tools.cube(path), V)
        if d:
            bad.append({'sig': 'tools.cube:mismatch', 'detail': d})
        bad += xarray_checks(path, V, sp, rng)
        n += 8
    else:
        with seismic_zfp.open(path) as f:
            for t in [0, V.shape[0] - 1, rng.randrange(V.shape[0])]:
                n += 1
                d = reads.same(f.trace[t], V[t])
                if d:
                    bad.append({'sig': 'emulator.trace[i]:2d-mismatch', 'detail': d})
    return {'violations': bad, 'counters': {'reads_compared': n, 'files': 1, 'slow_worker_seeks': mf.worker_seeks if mf is not None else 0, 'injected_yields': yi.yields if yi is not None else 0}, 'strata': sorted(strata),
            'key': '%s|%s|%s|%s|%s' % (fam, sp.rate, sp.bs, sp.shape, sp.version),
            'nontrivial': n >= 20 and int(np.prod(sp.padded)) > 4 ** len(sp.padded)}


def xarray_checks(path, V, sp, rng):
    import xarray as xr
    bad = []
    nI, nX, nZ = V.shape

    def one(name, fn, expv):
        ds = xr.open_dataset(path, engine='sgz_engine')
        try:
            got = fn(ds)
            d = reads.same(got, expv)
            if d:
                bad.append({'sig': 'xarray.%s:%s-mismatch' % (name, 'shape' if d.startswith('shape') else 'value'),
                            'detail': '%s: %s' % (name, d)})
        except Exception as e:  # noqa
            bad.append({'sig': 'xarray.%s:raised-%s' % (name, type(e).__name__), 'detail': repr(e)[:300]})
        finally:
            ds.close()
    (a0, a1), (b0, b1), (c0, c1) = (reads.rand_range(nI, sp.bs[0], rng), reads.rand_range(nX, sp.bs[1], rng),
                                    reads.rand_range(nZ, sp.bs[2], rng))
    one('slice', lambda ds: ds.data[a0:a1, b0:b1, c0:c1].to_numpy(), V[a0:a1, b0:b1, c0:c1])
    one('full', lambda ds: ds.data.to_numpy(), V)
    i, x, z = rng.randrange(nI), rng.randrange(nX), rng.randrange(nZ)
    one('isel-int', lambda ds: ds.data.isel(il=i).to_numpy(), V[i])
    one('isel-int-xl', lambda ds: ds.data.isel(xl=x).to_numpy(), V[:, x])
    one('isel-int-z', lambda ds: ds.data.isel(z=z).to_numpy(), V[:, :, z])
    one('isel-point', lambda ds: ds.data.isel(il=i, xl=x, z=z).to_numpy(), V[i, x, z])
    s0, s2 = rng.choice([2, 3]), rng.choice([2, 5])
    one('stepped', lambda ds: ds.data[a0:a1:s0, b0:b1, c0:c1:s2].to_numpy(), V[a0:a1:s0, b0:b1, c0:c1:s2])
    one('negative-step', lambda ds: ds.data[::-1, b0:b1, c0:c1].to_numpy(), V[::-1, b0:b1, c0:c1])
    # bounds counted from the end, as NumPy / xarray indexing allows
    k0, k2 = rng.randrange(1, nI + 1), rng.randrange(1, nZ + 1)
    one('negative-start', lambda ds: ds.data[-k0:, :, -k2::s2].to_numpy(), V[-k0:, :, -k2::s2])
    if nX > 2:
        one('negative-stop', lambda ds: ds.data[:, 1:-1, :].to_numpy(), V[:, 1:-1, :])
    one('negative-int', lambda ds: ds.data[-1, :, -1].to_numpy(), V[-1, :, -1])
    if nX > 3:
        one('negative-step-bounds', lambda ds: ds.data[:, -1:0:-2, :].to_numpy(), V[:, -1:0:-2, :])
    il = sp.ilines()
    one('sel-coord', lambda ds: ds.data.sel(il=int(il[i])).to_numpy(), V[i])
    return bad


def finalize(tier, cases, results, counters, strata):
    reasons = []
    need = ['coordinate-zero-interior', 'layout:default', 'layout:zslice', 'layout:general', 'layout:2d', 'irregular', 'kind:fixture']
    need += ['rate:%s' % r for r in (0.25, 0.5, 1, 2, 4, 8, 16, 32)]
    for s in need:
        if s not in strata:
            reasons.append('required stratum not hit: ' + s)
    if counters.get('reads_compared', 0) == 0:
        reasons.append('no read was compared')
    if counters.get('slow_worker_seeks', 0) == 0:
        reasons.append('no positioned read was issued from a pool thread through the slow-seek handle')
    return {}, reasons

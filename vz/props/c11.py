"""C11 windowed conversion = conversion of the windowed cube (differential)."""
import random

import numpy as np
import segyio

from .. import conform, conv, env, gen, oracles, reads
from ..oracles import KEYS

ID, TITLE, LEVEL = 'C11', 'windowed conversion', 'exploration'
RULE = ('case = one generated regular SEG-Y (up to 12 x 40 traces, IBM/IEEE, header model content) x a list of ordinal windows '
        '(min_il, max_il, min_xl, max_xl) stratified on {lower bound 0 / > 0} per axis and {upper bound = n / < n}, window and '
        'full trace counts padding to equal and to different 512-byte footer strides x reduce_iops on/off x detection mode x API/CLI x machine memory {real, just enough for one inline set of the window}; '
        'the harness writes a second SEG-Y holding only the windowed traces and converts it the same way; the two SGZ files must '
        'agree in dimensions, axes, trace count, every sample read, every header of every trace (and file length for thorough / '
        'exhaustive), and the windowed file must be the per-cell ZFP image of the sub-cube and pass conformance. distinct = '
        '(window class per axis, reader, mode, route); non-trivial = both conversions ran and were compared')
ASSUMPTIONS = ['header equality under heuristic detection is required only when the full source satisfies the heuristic precondition']


def cases(tier, seed):
    rng = random.Random('C11/%s' % seed)
    out = []
    n = 60 if tier == 'quick' else 400
    for i in range(n):
        nI, nX = rng.choice([(5, 6), (8, 9), (12, 40), (9, 13), (4, 32), (6, 5), (10, 26)])
        nZ = rng.choice([5, 12, 33])
        src = conv.src_desc(rng, '3d', (nI, nX, nZ), hdr={'seed': rng.randrange(1 << 20), 'nfields': rng.randint(1, 4), 'inside': True},
                            valkind='smooth', il=[rng.choice([1, 10, -20]), rng.choice([1, 2, -1])], xl=[rng.choice([1, 100]), rng.choice([1, 3, -2])])
        if i % 6 == 5:
            src['sorting'] = 1           # crossline-sorted source file
        wins = []
        for a0 in (True, False):
            for c0 in (True, False):
                a = 0 if a0 else rng.randrange(1, nI - 1)
                c = 0 if c0 else rng.randrange(1, nX - 1)
                b = rng.choice([nI, rng.randrange(a + 2, nI + 1)]) if a + 2 <= nI else nI
                d = rng.choice([nX, rng.randrange(c + 2, nX + 1)]) if c + 2 <= nX else nX
                wins.append([a, b, c, d])
        # windows exactly one line thick on one axis (max = min + 1 is a window like any other: a one-line 3D file)
        a1, c1 = rng.randrange(nI), rng.randrange(nX)
        wins += [[a1, a1 + 1, 0, nX], [0, nI, c1, c1 + 1]]
        out.append({'id': 'win:%d' % i, 'src': src, 'windows': wins, 'reduce_iops': i % 2 == 1, 'detection': ['thorough', 'heuristic', 'exhaustive', 'strip'][i % 4],
                    'route': 'cli' if i % 5 == 4 else 'api', 'rate': rng.choice([4, 8, 2]), 'bs': rng.choice([[4, 4, -1], [4, 4, -1], [8, 8, -1]]) if i % 4 else [[8, 4, -1], [4, 8, -1], [4, 16, -1]][(i // 4) % 3], 'cost': 3})
    return out


def run_case(case, ctx):
    from seismic_zfp.read import SgzReader
    rng = ctx['rng']
    sc = ctx['scratch']
    src = conv.build_source(case['src'], sc)
    D = src['data']
    nI, nX, nZ = D.shape
    il, xl = src['ilines'], src['xlines']
    H = src['headers']
    Hg = conv.grid_fields(src)          # header values on the inline-major grid whatever the trace sorting of the source file
    rate, bs = case['rate'], tuple(case['bs'])
    det = case['detection'] if case['route'] == 'api' else 'heuristic'
    bad, strata = [], set()
    npairs = 0
    inside = gen.heuristic_precondition(H)
    for wi, (a, b, c, d) in enumerate(case['windows']):
        # every other window: a machine whose memory just holds one inline set of the WINDOW (and of the sub-cube converted alone)
        mem = 2 * conv.resolve_bs(rate, bs)[0] * (d - c) * nZ * 4 if wi % 2 == 1 and case['route'] == 'api' else None
        wcls = 'il0:%s,xl0:%s' % ('zero' if a == 0 else 'pos', 'zero' if c == 0 else 'pos')
        wname = sc.file('w.sgz')
        sname = sc.file('s.sgz')
        sub = sc.file('sub.sgy')
        # the sub-cube alone, written by the harness with the windowed traces' own headers
        hsub = {k: Hg[k].reshape(nI, nX)[a:b, c:d].reshape(-1) for k in KEYS if k not in gen.RESERVED and H[k].any()}
        gen.make_segy(sub, D[a:b, c:d], il[a:b], xl[c:d], dt_us=case['src']['dt'], t0=case['src']['t0'], fmt=src['fmt'], headers=hsub)
        try:
            if case['route'] == 'api':
                # a third of the cases: the windowed converter object has already written another file with another setting
                pr = (8 if rate != 8 else 4, (4, 4, -1), 'exhaustive') if int(case['id'].split(':')[1]) % 3 == 2 else None
                if pr:
                    strata.add('converter-reused')
                # (window ordinals often come out of NumPy computations: every third window gives them as NumPy integers)
                win = (a, b, c, d) if wi % 3 != 2 else (np.int64(a), np.int32(b), np.intp(c), np.int16(d))
                if wi % 3 == 2:
                    strata.add('window-ordinals:numpy-int')
                conv.convert_segy(src['path'], wname, rate, bs, reduce_iops=case['reduce_iops'], detection=det, window=win, prerun=pr, mem_limit=mem)
            else:
                conv.convert_cli_inproc(src['path'], wname, rate, conv.resolve_bs(rate, bs), reduce_iops=case['reduce_iops'], window=(a, b, c, d))
        except Exception as e:  # noqa
            bad.append({'sig': 'window:%s:conversion-raises-%s' % ('iops' if case['reduce_iops'] else 'segyio', type(e).__name__),
                        'detail': 'window %s of %s (%s): %r' % ((a, b, c, d), (nI, nX), wcls, e)})
            continue
        one_line = b - a == 1 or d - c == 1
        if one_line:
            # (the sub-cube written alone is a single-line SEG-Y, which converts as a 2D line: no differential reference; the windowed file is
            # still held to the truth below - axes, trace count, samples, headers, conformance)
            strata.add('window-one-line-thick')
        else:
            conv.convert_segy(sub, sname, rate, bs, reduce_iops=False, detection=det, mem_limit=mem)
        npairs += 1
        if mem is not None and d - c < nX:
            strata.add('memory-fits-window-only')
        strata.update(['sorting:%d' % case['src'].get('sorting', 2), 'win:' + wcls, 'reader:' + ('iops' if case['reduce_iops'] else 'segyio'), 'mode:' + det, 'route:' + case['route'],
                       'upper:%s' % ('full' if (b, d) == (nI, nX) else 'inner'),
                       'stride:%s' % ('same' if oracles.pad(4 * nI * nX, 512) == oracles.pad(4 * (b - a) * (d - c), 512) else 'different')])
        where = 'window %s of %s [%s], reduce_iops=%s mode=%s route=%s' % ((a, b, c, d), (nI, nX), wcls, case['reduce_iops'], det, case['route'])
        Dw = src['data'][a:b, c:d]
        img = oracles.image(Dw, rate)
        t = {'shape': Dw.shape, 'rate': rate, 'bs': conv.resolve_bs(rate, bs), 'ilines': il[a:b], 'xlines': xl[c:d], 'samples': src['samples'],
             'ntraces': (b - a) * (d - c), 'data_image': img, 'file_header': src['file_header']}
        req = det in ('thorough', 'exhaustive') or (det == 'heuristic' and inside)
        if det == 'strip':
            t['fields'] = {k: np.zeros((b - a) * (d - c), dtype=np.int64) for k in KEYS}
        elif req:
            t['fields'] = {k: Hg[k].reshape(nI, nX)[a:b, c:d].reshape(-1) for k in KEYS}
        bw, spw = conform.check(wname, t, tag='window:')
        for x in bw:
            x['detail'] += ' [%s]' % where
        bad += bw
        if bw or one_line:
            continue
        sps = oracles.Spec(sname)
        if spw.shape != sps.shape or spw.ntr != sps.ntr or not np.array_equal(spw.ilines(), sps.ilines()) or not np.array_equal(spw.xlines(), sps.xlines()):
            bad.append({'sig': 'window:geometry-differs-from-subcube-conversion', 'detail': where})
            continue
        if det in ('thorough', 'exhaustive') and len(spw.raw) != len(sps.raw):
            bad.append({'sig': 'window:file-length-differs-from-subcube-conversion', 'detail': '%d vs %d; %s' % (len(spw.raw), len(sps.raw), where)})
        with SgzReader(wname) as rw, SgzReader(sname) as rs:
            ops = reads.ops_3d(Dw.shape, rw.blockshape, rng, 14)
            for op in ops:
                if reads.run_op(rw, op) != reads.run_op(rs, op):
                    bad.append({'sig': 'window:%s-differs-from-subcube-conversion' % op[0], 'detail': '%s%s; %s' % (op[0], op[1], where)})
                    break
            # (heuristic: the sub-cube conversion is only a valid reference where the sub-cube itself satisfies the
            # heuristic precondition; header truth for the window is already checked against the source above)
            if det in ('thorough', 'exhaustive', 'strip'):
                for tr in range((b - a) * (d - c)):
                    ha = {int(k): int(v) for k, v in rw.gen_trace_header(tr).items()}
                    hb = {int(k): int(v) for k, v in rs.gen_trace_header(tr).items()}
                    if ha != hb:
                        bad.append({'sig': 'window:trace-header-differs-from-subcube-conversion',
                                    'detail': 'trace %d fields %s; %s' % (tr, [k for k in ha if ha[k] != hb.get(k)][:5], where)})
                        break
    return {'violations': bad, 'counters': {'pairs_compared': npairs}, 'strata': sorted(strata), 'key': case['id'], 'nontrivial': npairs > 0}


def finalize(tier, cases, results, counters, strata):
    reasons = []
    need = ['win:il0:zero,xl0:zero', 'win:il0:zero,xl0:pos', 'win:il0:pos,xl0:zero', 'win:il0:pos,xl0:pos', 'reader:iops', 'reader:segyio',
            'mode:thorough', 'mode:heuristic', 'mode:exhaustive', 'route:api', 'route:cli', 'upper:full', 'upper:inner', 'sorting:1', 'sorting:2', 'converter-reused', 'memory-fits-window-only', 'window-ordinals:numpy-int', 'window-one-line-thick']
    for s in need:
        if s not in strata:
            reasons.append('required stratum not hit: ' + s)
    return {}, reasons

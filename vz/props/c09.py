"""C09 2D lines: trace order, headers, sample fidelity (2-D codec image), sub-plane windows, refusals."""
import random

import numpy as np

from .. import conform, conv, env, gen, oracles, reads
from ..oracles import KEYS

ID, TITLE, LEVEL = 'C09', '2D lines', 'exploration'
RULE = ('case = one 2D SEG-Y (no line numbering / single inline / single crossline; trace counts from {2..5, b-1, b, b+1, '
        '2b+3, 128, 129}) x one valid (1, b, c) blockshape x rate >= 1 (the complete valid 2D set is cycled through); '
        'monitors: is_2d, trace count, sample axis, get_trace(i)/trace[i] for every i, gen_trace_header/header[i] for every i '
        'and all 89 fields, read_subplane(full) bitwise = 2-D per-cell ZFP image = O-SPEC decode, windows on every residue '
        'class, volume-style reads refused with the dimensionality error, C03 conformance. distinct = (how 2D, trace-count '
        'class, rate, blockshape); non-trivial = >= 2 traces, >= 2 samples and the section was compared')
ASSUMPTIONS = ['2D rates below 1 are decided by C19 (codec minimum), not here']


def valid_2d():
    out = []
    for rate in [1, 2, 4, 8, 16, 32]:
        k = int(round(np.log2(32768 / rate)))
        for b in range(2, k - 1):
            out.append((rate, (1, 2 ** b, 2 ** (k - b))))
    return out


def cases(tier, seed):
    rng = random.Random('C09/%s' % seed)
    grid = valid_2d()
    out = []
    reps = 3 if tier == 'quick' else 12
    for rep in range(reps):
        for i, (rate, bs) in enumerate(grid):
            b = bs[1]
            nT = [2, 3, 4, 5, b - 1, b, b + 1, 2 * b + 3, 128, 129][(i + 3 * rep) % 10]
            nT = max(2, min(nT, 1100))
            nZ = rng.choice([2, 3, 7, 50, bs[2] - 1, bs[2], bs[2] + 1, 2 * bs[2] + 1])
            nZ = max(2, min(nZ, 1200))
            if b == 4 and bs[2] < 1200 and rep % 2 == 0:
                # per-trace-group layout with traces longer than one disk block, several groups
                nZ, nT = bs[2] + rng.choice([1, 5]), max(nT, 9)
            if oracles.pad(nT, b) * oracles.pad(nZ, bs[2]) > 2_000_000:
                nZ = max(2, min(nZ, 50))
            how = ['nonumbers', 'single-inline', 'single-crossline', 'single-inline-gathers', 'single-inline-prestack', 'nonumbers', 'single-crossline-prestack'][(i + rep) % 7]
            src = conv.src_desc(rng, '2d', (nT, nZ), how2d=how, hdr={'seed': rng.randrange(1 << 20), 'nfields': rng.randint(1, 5), 'inside': True})
            if (i + rep) % 6 == 4:
                src['fmt'] = [3, 2, 8][i % 3]
            if True:
                src['offset2d'] = [None, 'vary', 'const', 'repeat', 'desc'][(i // 3 + rep) % 5]
            out.append({'id': '2d:%s:%s:%d' % (rate, 'x'.join(map(str, bs)), rep), 'src': src, 'rate': rate, 'bs': list(bs),
                        'spell': rng.choice(['full', 'c-1', 'default']), 'detection': rng.choice(['heuristic', 'thorough', 'exhaustive']), 'cost': 2})
    return out


def run_case(case, ctx):
    import seismic_zfp
    from seismic_zfp.read import SgzReader
    from seismic_zfp.utils import WrongDimensionalityError
    rng = ctx['rng']
    src = conv.build_source(case['src'], ctx['scratch'])
    D = src['data']
    nT, nZ = D.shape
    rate, bs = case['rate'], tuple(case['bs'])
    out = ctx['scratch'].file('o.sgz')
    bs_arg = bs if case['spell'] == 'full' else (1, bs[1], -1)
    conv.convert_segy(src['path'], out, rate, bs_arg, detection=case['detection'])
    img = oracles.image(D, rate)
    bad = []
    exact = conv.must_be_exact(src, case['detection'])
    truth = {'shape': (nT, nZ), 'rate': rate, 'bs': bs, 'ntraces': nT, 'samples': src['samples'], 'data_image': img, 'file_header': src['file_header']}
    if exact:
        truth['fields'] = conv.grid_fields(src, exact)
    b, sp = conform.check(out, truth, tag='2d:')
    bad += b
    n = 0
    with SgzReader(out) as r:
        if not r.is_2d or r.is_3d:
            bad.append({'sig': '2d:is_2d-flag', 'detail': 'is_2d=%r' % r.is_2d})
        if r.tracecount != nT:
            bad.append({'sig': '2d:tracecount', 'detail': '%d vs %d' % (r.tracecount, nT)})
        if len(r.zslices) != nZ or not np.allclose(r.zslices, src['samples'], rtol=1e-6, atol=1e-6):
            bad.append({'sig': '2d:sample-axis', 'detail': '%s vs %s' % (r.zslices[:3], src['samples'][:3])})
        d = reads.same(r.read_subplane(0, nT, 0, nZ), img)
        n += 1
        if d:
            bad.append({'sig': '2d:section-differs-from-2d-codec-image', 'detail': 'read_subplane(full): %s (rate %s bs %s shape %s)' % (d, rate, bs, D.shape)})
        ops = [('get_trace', (i,)) for i in range(nT)] + reads.ops_2d(nT, nZ, bs, rng, 40)
        # windows with one bound only (each bound is optional on its own)
        for _ in range(4):
            t_, k_ = rng.randrange(nT), rng.randrange(1, nZ) if nZ > 1 else 1
            ops += [('get_trace', (t_, k_)), ('get_trace', (t_, None, k_))]
        b, k = reads.check_ops(r, ops, lambda op: reads.expected_2d(img, op), tag='2d:')
        bad += b
        n += k
        if exact:
            H = src['headers']
            for t in range(nT):
                h = {int(k2): int(v) for k2, v in r.gen_trace_header(t).items()}
                diff = [k2 for k2 in KEYS if h.get(k2) != int(H[k2][t])]
                n += 1
                if diff:
                    bad.append({'sig': '2d:gen_trace_header-differs', 'detail': 'trace %d field(s) %s' % (t, diff[:4])})
                    break
        for m, a in (('read_inline', (0,)), ('read_crossline', (0,)), ('read_zslice', (0,)), ('read_subvolume', (0, 1, 0, 1, 0, 1)), ('read_volume', ()),
                     ('read_correlated_diagonal', (0,)), ('read_anticorrelated_diagonal', (0,))):
            n += 1
            try:
                getattr(r, m)(*a)
                bad.append({'sig': '2d:%s-not-refused' % m, 'detail': 'volume-style read returned on a 2D file'})
            except WrongDimensionalityError:
                pass
            except Exception as e:  # noqa
                bad.append({'sig': '2d:%s-refused-with-%s' % (m, type(e).__name__), 'detail': repr(e)[:200]})
    with seismic_zfp.open(out) as f:
        if not f.unstructured:
            bad.append({'sig': '2d:emulator-unstructured-flag', 'detail': 'unstructured False'})
        for t in {0, nT - 1, rng.randrange(nT), -1}:
            n += 1
            d = reads.same(f.trace[t], img[t])
            if d:
                bad.append({'sig': '2d:emulator.trace-differs', 'detail': 'trace[%d]: %s' % (t, d)})
            if exact:
                h = {int(k2): int(v) for k2, v in f.header[t].items()}
                tt = t % nT
                if any(h.get(k2) != int(src['headers'][k2][tt]) for k2 in KEYS):
                    bad.append({'sig': '2d:emulator.header-differs', 'detail': 'header[%d]' % t})
        for acc in ('iline', 'xline', 'depth_slice'):
            try:
                getattr(f, acc)[0]
                bad.append({'sig': '2d:emulator.%s-not-refused' % acc, 'detail': ''})
            except WrongDimensionalityError:
                pass
            except Exception as e:  # noqa
                bad.append({'sig': '2d:emulator.%s-refused-with-%s' % (acc, type(e).__name__), 'detail': repr(e)[:200]})
    b1 = bs[1]
    strata = ['how:' + case['src']['how2d'], 'rate:%s' % rate, 'ntraces:%s' % ('<b' if nT < b1 else '=b' if nT == b1 else '>b' if nT <= 2 * b1 else '>2b'),
              'bs1:%s' % ('4' if b1 == 4 else 'other'), 'res4:%d' % (nT % 4), 'detection:' + case['detection']]
    strata.append('offsets:%s' % case['src'].get('offset2d'))
    return {'violations': bad, 'counters': {'reads_compared': n, 'files': 1}, 'strata': strata,
            'key': '%s|%s|%s|%s' % (case['src']['how2d'], rate, bs, strata[2]), 'nontrivial': n > 5}


def finalize(tier, cases, results, counters, strata):
    reasons = []
    need = ['how:nonumbers', 'how:single-inline', 'how:single-crossline', 'how:single-inline-gathers', 'how:single-inline-prestack', 'how:single-crossline-prestack', 'ntraces:<b', 'ntraces:=b', 'ntraces:>b', 'ntraces:>2b', 'bs1:4', 'bs1:other'] + \
           ['rate:%s' % r for r in (1, 2, 4, 8, 16, 32)] + ['res4:%d' % i for i in range(4)]
    for s in need:
        if s not in strata:
            reasons.append('required stratum not hit: ' + s)
    return {'valid_2d_settings_enumerated': len(valid_2d())}, reasons

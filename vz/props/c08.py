"""C08 irregular 3D surveys: trace identity, inferred grid, zero-filled holes."""
import random

import numpy as np

from .. import conform, conv, env, gen, oracles, reads
from ..oracles import KEYS

ID, TITLE, LEVEL = 'C08', 'irregular 3D surveys', 'exploration'
RULE = ('case = one generated inline-sorted irregular SEG-Y: grid 2..12 x 2..12, hole pattern {single corner, checkerboard, '
        'ragged rows, missing interior, random} keeping >= 1 trace on every inline and crossline, independent starts (either '
        'sign) and increments per axis (strata with unequal increments), header model content, detection mode in {heuristic, '
        'thorough, exhaustive}, rate in {1,4,16} and a layout; monitors: axes / tracecount / structured flag; get_trace(i), '
        'trace[i], gen_trace_header(i), header[i] = i-th source trace / header for EVERY i; get_tracefield_values = grid with '
        'zeros at holes; read_volume and every volume-style read bitwise = per-cell ZFP image of the zero-filled, '
        'zero-extended grid = O-SPEC decode. distinct = (grid, pattern, axis classes, mode, rate); non-trivial = at least one '
        'hole and every trace compared')
ASSUMPTIONS = ['the grid is recoverable from the headers (every inline and crossline carries a trace), as the property states']
PATTERNS = ['corner', 'checker', 'ragged', 'interior', 'random']

WITNESS = [
    # pinned witnesses of the two listed known findings (always run, so the KNOWN-FINDING lines are deterministic)
    {'id': 'witness:segyio-infers-regular', 'src': {'geom': 'irregular', 'shape': [9, 7, 9], 'il': [1, 2], 'xl': [-700, 1], 'dt': 2000, 't0': 8, 'fmt': 5,
                                                   'ext': 0, 'cubeseed': 149314, 'valkind': 'smooth', 'hdr': {'seed': 655395, 'nfields': 4, 'inside': True}, 'sorting': 2,
                                                   'holes': [0, 1, 4, 10, 13, 16, 18, 20, 25, 28, 32, 34, 35, 36, 37, 40, 45, 50, 54, 56, 58]},
     'rate': 4, 'bs': [4, 4, -1], 'detection': 'thorough', 'pattern': 'random', 'cost': 1},
    {'id': 'witness:inline-zero', 'src': {'geom': 'irregular', 'shape': [5, 4, 7], 'il': [-2, 1], 'xl': [10, 2], 'dt': 4000, 't0': 0, 'fmt': 5, 'ext': 0,
                                         'cubeseed': 5, 'valkind': 'smooth', 'hdr': {'seed': 3, 'nfields': 2, 'inside': True}, 'sorting': 2, 'holes': [1, 6, 19]},
     'rate': 4, 'bs': [4, 4, -1], 'detection': 'thorough', 'pattern': 'random', 'cost': 1},
    # directed: the grid (132 positions = two 512-byte footer pages per header array) needs more pages than the traces present (126 = one page)
    {'id': 'directed:footer-pages-grid-vs-traces', 'src': {'geom': 'irregular', 'shape': [12, 11, 6], 'il': [3, 2], 'xl': [20, 1], 'dt': 4000, 't0': 0, 'fmt': 5, 'ext': 0,
                                                          'cubeseed': 11, 'valkind': 'smooth', 'hdr': {'seed': 8, 'nfields': 3, 'inside': True}, 'sorting': 2,
                                                          'holes': [7, 30, 55, 76, 101, 125]},
     'rate': 4, 'bs': [4, 4, -1], 'detection': 'thorough', 'pattern': 'random', 'cost': 1},
]


def holes_for(pattern, nI, nX, rng):
    tot = nI * nX
    if pattern == 'corner':
        h = [rng.choice([0, nX - 1, tot - nX, tot - 1])]
    elif pattern == 'checker':
        h = [i * nX + x for i in range(nI) for x in range(nX) if (i + x) % 2 == 1]
    elif pattern == 'ragged':
        h = []
        for i in range(nI):
            keep = rng.randint(1, nX)
            h += [i * nX + x for x in range(keep, nX)]
        # every crossline must keep a trace: make one row full
        full = rng.randrange(nI)
        h = [q for q in h if q // nX != full]
    elif pattern == 'interior':
        h = [i * nX + x for i in range(1, nI - 1) for x in range(1, nX - 1) if rng.random() < 0.6]
    else:
        return conv.pick_holes(rng, nI, nX, plain=False)
    present = np.ones((nI, nX), bool)
    present.reshape(-1)[h] = False
    if not h or not (present.any(axis=1).all() and present.any(axis=0).all()):
        return conv.pick_holes(rng, nI, nX, plain=False)
    return sorted(h)


def cases(tier, seed):
    rng = random.Random('C08/%s' % seed)
    out = [dict(w) for w in WITNESS]
    n = 200 if tier == 'quick' else 1500
    lays = [(4, (4, 4, -1)), (1, (4, 4, -1)), (16, (4, 4, -1)), (4, (8, 8, -1)), (2, (64, 64, 4)), (16, (4, 16, -1))]
    for i in range(n):
        nI, nX = rng.randint(2, 12), rng.randint(2, 12)
        if nI * nX < 6:
            nI, nX = 3, 4
        pat = PATTERNS[i % len(PATTERNS)]
        holes = holes_for(pat, nI, nX, rng)
        ils = rng.choice([1, 2, 3, 5, 10])
        xls = rng.choice([s for s in [1, 2, 3, 4, 7] if s != ils] if i % 2 else [ils])
        # (line numbers beyond 2**24 included: they do not survive a detour through float32)
        il0 = rng.choice([1, 5, 100, -3, -50, 1000, -1000, 20000001])
        xl0 = rng.choice([1, 20, -7, -400, 0, 3000, 16777217])
        rate, bs = rng.choice(lays)
        src = conv.src_desc(rng, 'irregular', (nI, nX, rng.choice([3, 8, 21])), holes=holes, il=[il0, ils], xl=[xl0, xls],
                            hdr={'seed': rng.randrange(1 << 20), 'nfields': rng.randint(0, 4), 'inside': True},
                            valkind=rng.choice(['smooth', 'smooth', 'noise', 'neg']))
        out.append({'id': 'ir:%d:%s' % (i, pat), 'src': src, 'rate': rate, 'bs': list(bs), 'detection': ['heuristic', 'thorough', 'exhaustive'][i % 3],
                    'pattern': pat, 'cost': 1})
    return out


def run_case(case, ctx):
    import seismic_zfp
    from seismic_zfp.read import SgzReader
    rng = ctx['rng']
    src = conv.build_source(case['src'], ctx['scratch'])
    nI, nX, nZ = case['src']['shape']
    il, xl = src['ilines'], src['xlines']
    present = src['present']
    pos = src['positions']
    n = src['ntraces']
    G = src['data']                      # zero-filled grid
    rate, bs = case['rate'], tuple(case['bs'])
    out = ctx['scratch'].file('o.sgz')
    known = None
    if src.get('segyio_structured'):
        known = 'irregular:segyio-infers-regular-cube'
    elif 0 in [int(il[i]) for i, x in pos]:
        known = 'irregular:inline-numbered-0-treated-as-hole'
    bad = []
    try:
        conv.convert_segy(src['path'], out, rate, bs, detection=case['detection'])
    except Exception as e:  # noqa
        if known:
            return {'violations': [{'sig': known, 'detail': 'conversion raised %r' % e}], 'strata': ['known:' + known], 'counters': {'files': 1}}
        raise
    img = oracles.image(G, rate, 'zero')
    exact = conv.must_be_exact(src, case['detection'])
    truth = {'shape': (nI, nX, nZ), 'rate': rate, 'bs': conv.resolve_bs(rate, bs), 'ilines': il, 'xlines': xl, 'ntraces': n, 'samples': src['samples'],
             'data_image': img, 'file_header': src['file_header'], 'field_mask': present.reshape(-1)}
    if exact:
        truth['fields'] = conv.grid_fields(src, exact)
    b, sp = conform.check(out, truth, tag='irregular:')
    bad += b
    ncmp = 0
    try:
        with SgzReader(out) as r:
            if r.structured is not False:
                bad.append({'sig': 'irregular:structured-flag', 'detail': 'structured=%r' % r.structured})
            if r.tracecount != n:
                bad.append({'sig': 'irregular:tracecount', 'detail': '%d vs source %d' % (r.tracecount, n)})
            if not (len(r.ilines) == nI and np.array_equal(r.ilines, il)):
                bad.append({'sig': 'irregular:inline-axis', 'detail': 'reported %s, present line numbers %s' % (r.ilines[:5], il[:5])})
            if not (len(r.xlines) == nX and np.array_equal(r.xlines, xl)):
                bad.append({'sig': 'irregular:crossline-axis', 'detail': 'reported %s, present line numbers %s' % (r.xlines[:5], xl[:5])})
            if not bad:
                # trace identity
                for t, (i, x) in enumerate(pos):
                    d = reads.same(r.get_trace(t), img[i, x])
                    ncmp += 1
                    if d:
                        bad.append({'sig': 'irregular:get_trace-is-not-ith-source-trace', 'detail': 'get_trace(%d) should be grid (%d,%d): %s' % (t, i, x, d)})
                        break
                if exact:
                    H = src['headers']
                    for t in range(n):
                        h = {int(k): int(v) for k, v in r.gen_trace_header(t).items()}
                        diff = [k for k in KEYS if h.get(k) != int(H[k][t])]
                        ncmp += 1
                        if diff:
                            bad.append({'sig': 'irregular:gen_trace_header-is-not-ith-source-header', 'detail': 'trace %d fields %s: %s vs %s'
                                        % (t, diff[:4], [h.get(k) for k in diff[:4]], [int(H[k][t]) for k in diff[:4]])})
                            break
                GF = conv.grid_fields(src)
                # (under heuristic detection outside its stated precondition - e.g. inline and crossline numbers agreeing on the first
                # and on the last trace - stored arrays may legitimately be another field's: C04)
                for k in (sorted(set(int(k) for k in r.stored_header_keys)) if exact else []):
                    got = np.asarray(r.get_tracefield_values(k))
                    ncmp += 1
                    if got.shape != (nI, nX) or not np.array_equal(got.reshape(-1).astype(np.int64), GF[k]):
                        bad.append({'sig': 'irregular:get_tracefield_values-grid-differs', 'detail': 'field %d: shape %s' % (k, got.shape)})
                        break
                if exact and not bad:
                    # ... and on the same reader again after the grid reads: header i and trace i are still the i-th source header / trace
                    for t in sorted({0, n - 1, n // 2, rng.randrange(n)}):
                        h = {int(k): int(v) for k, v in r.gen_trace_header(t).items()}
                        ncmp += 1
                        if any(h.get(k) != int(src['headers'][k][t]) for k in KEYS):
                            bad.append({'sig': 'irregular:gen_trace_header-after-grid-reads-is-not-ith-source-header', 'detail': 'trace %d' % t})
                            break
                        i_, x_ = pos[t]
                        if reads.same(r.get_trace(t), img[i_, x_]):
                            bad.append({'sig': 'irregular:get_trace-after-grid-reads-is-not-ith-source-trace', 'detail': 'trace %d' % t})
                            break
                ops = reads.ops_3d((nI, nX, nZ), r.blockshape, rng, 36, tracecount=n)
                ops = [o for o in ops if o[0] != 'get_trace']
                ops += [('read_inline', (i,)) for i in range(nI)] + [('read_crossline', (x,)) for x in range(nX)]
                b2, k2 = reads.check_ops(r, ops, lambda op: reads.expected_3d(img, op), tag='irregular:')
                bad += b2
                ncmp += k2
        if not bad:
            with seismic_zfp.open(out) as f:
                for t in {0, n - 1, rng.randrange(n), -1}:
                    i, x = pos[t % n]
                    ncmp += 1
                    d = reads.same(f.trace[t], img[i, x])
                    if d:
                        bad.append({'sig': 'irregular:emulator.trace-is-not-ith-source-trace', 'detail': 'trace[%d]: %s' % (t, d)})
                    if exact:
                        h = {int(k): int(v) for k, v in f.header[t].items()}
                        if any(h.get(k) != int(src['headers'][k][t % n]) for k in KEYS):
                            bad.append({'sig': 'irregular:emulator.header-is-not-ith-source-header', 'detail': 'header[%d]' % t})
    except Exception as e:  # noqa
        if not known:
            raise
        bad.append({'sig': 'raised', 'detail': repr(e)})
    ils, xls = case['src']['il'][1], case['src']['xl'][1]
    strata = ['pattern:' + case['pattern'], 'steps:' + ('equal' if ils == xls else 'unequal'), 'rate:%s' % rate, 'detection:' + case['detection'],
              'sign:' + ('neg' if il[0] < 0 or xl[0] < 0 else 'pos'),
              'count%%firstline:%s' % ('0' if n % int(present[0].sum()) == 0 else 'nz')]
    if known:
        strata.append('known:' + known)
        if bad:
            # every symptom in a case matching a listed finding's input predicate is that finding
            bad = [{'sig': known, 'detail': '; '.join(sorted(set(v['sig'] for v in bad)))[:600]}]
    return {'violations': bad, 'counters': {'compared': ncmp, 'files': 1}, 'strata': strata,
            'key': case['id'], 'nontrivial': ncmp >= n or bool(known)}


def finalize(tier, cases, results, counters, strata):
    reasons = []
    need = ['pattern:' + p for p in PATTERNS] + ['steps:equal', 'steps:unequal', 'rate:1', 'rate:4', 'rate:16', 'sign:neg', 'sign:pos',
                                                 'count%firstline:0', 'count%firstline:nz', 'detection:heuristic', 'detection:thorough',
                                                 'detection:exhaustive']
    for s in need:
        if s not in strata:
            reasons.append('required stratum not hit: ' + s)
    return {}, reasons

"""C17 I/O failures are reported: single and paired faults at every position of the range-read
sequence of every read call (local file and blob backend), plus arbitrary completion orders of the
parallel remote reads."""
import itertools
import random
import threading
import time

import numpy as np

from .. import env, files, monitors, oracles, reads

ID, TITLE, LEVEL = 'C17', 'I/O failures are reported', 'fault_enumeration'
RULE = ('case = one file x backend {local counting file, fake blob client}; for every read method a fault-free run '
        'records the n range reads it issues and its true result, then for EVERY position k < n and every fault kind '
        '{exception, short read (half), short read (length-1), empty read} the call is repeated on a fresh reader with '
        'that single fault, and after a failed call the same call (and the other header / trace accessors) is repeated fault-free on the SAME reader (pairs of faults: all pairs when n <= 8, sampled above; construction-time faults incl. '
        'preload enumerated the same way); blob backend additionally under seeded permutations of request completion '
        'order. A result must be an exception or exactly the true result. distinct = (file, op, position, kind); '
        'non-trivial = the fault was actually injected (monitor counter)')
ASSUMPTIONS = ['the fake blob client implements the download_blob(offset, length).readall() contract; Azure itself is not exercised',
               'native-boundary contract (buffer long enough for shape x rate) stands in for memcheck in the quick tier']
KINDS = ['exc', 'half', 'minus1', 'empty']
CASE_TIMEOUT = {'quick': 900, 'thorough': 3600}


def worker_init(ctx):
    ctx['zfpy_proxy'] = monitors.install_native_contracts(enforce=True)


def _clear(r):
    """drop the loader's class-level caches between observed calls (best effort: internal API)"""
    try:
        r.loader.clear_cache()
    except Exception:  # noqa
        pass


def cases(tier, seed):
    rng = random.Random('C17/%s' % seed)
    out = []
    fx = ['small_4bit.sgz', 'small_2bit-64x64.sgz', 'small_8bit-8x8.sgz', 'small-2d.sgz', 'small-irregular.sgz', 'small_v0.0.1.sgz',
          'small_025bit.sgz']
    for rel in fx:
        for backend in ('local', 'blob'):
            out.append({'id': 'fix:%s:%s' % (rel, backend), 'file': {'kind': 'fixture', 'rel': rel}, 'backend': backend,
                        'pairs': 12 if tier == 'quick' else 60, 'orders': 6 if tier == 'quick' else 40, 'cost': 4})
    lays = [('default', 4, (4, 4, 512)), ('zslice', 2, (64, 64, 4)), ('general', 8, (8, 8, 64)), ('zslice', 0.5, (128, 128, 4)),
            ('default', 0.5, (4, 4, 4096))]
    if tier != 'quick':
        lays += [(f, r, b) for f, ls in files.LAYOUTS_3D.items() for r, b in ls]
    for i, (fam, rate, bs) in enumerate(lays):
        shape = files.small_shape_for(bs, rng, blocks=(2, 2), cap=300_000 if tier == 'quick' else 1_000_000)
        d = files.wspec_desc(rng, shape, rate, bs, narr=rng.choice([2, 3]))
        for backend in ('local', 'blob'):
            out.append({'id': 'w3:%s:%s:%s:%d:%s' % (fam, rate, 'x'.join(map(str, bs)), i, backend), 'file': d, 'backend': backend,
                        'pairs': 12 if tier == 'quick' else 60, 'orders': 6 if tier == 'quick' else 40, 'cost': 6})
    # wide file: more than 20 parallel range reads per crossline / z-slice call on the remote backend
    d = files.wspec_desc(rng, (85, 23, 9), 4, (4, 4, 512), narr=2)
    out.append({'id': 'w3:wide:blob', 'file': d, 'backend': 'blob', 'pairs': 10, 'orders': 6, 'cost': 8, 'wide': True})
    for rate, bs in ([(4, (1, 4, 2048)), (8, (1, 16, 256))] if tier == 'quick' else files.LAYOUTS_2D):
        nT = 2 * bs[1] + 1
        nZ = 301 if bs[2] > 301 else 2 * bs[2] + 1
        d = files.wspec_desc(rng, (nT, nZ), rate, bs, version=[0, 2, 9], narr=2)
        for backend in ('local', 'blob'):
            out.append({'id': 'w2:%s:%s:%s' % (rate, 'x'.join(map(str, bs)), backend), 'file': d, 'backend': backend,
                        'pairs': 8, 'orders': 4, 'cost': 2})
    nI, nX = 6, 7
    d = files.wspec_desc(rng, (nI, nX, 20), 4, (4, 4, 512), version=[0, 2, 9], holes=[3, 8, 20, 41], il=[5, 1], narr=3)
    for backend in ('local', 'blob'):
        out.append({'id': 'wi:%s' % backend, 'file': d, 'backend': backend, 'pairs': 8, 'orders': 4, 'cost': 2})
    # the same fault sweep in an interpreter started with -O (assert statements are compiled out there: a length check must not be one)
    out.append({'id': 'optimised-interpreter', 'kind': 'python-O', 'cost': 4})
    if tier == 'thorough':
        out.append({'id': 'memcheck:faults', 'kind': 'memcheck', 'workload': 'faults', 'cost': 60})
    return out


def op_list(sp, rng):
    if sp.is2d:
        nT, nZ = sp.shape
        ops = [('get_trace', (0,)), ('get_trace', (nT - 1,)), ('read_subplane', (0, nT, 0, nZ)),
               ('read_subplane', (1, min(nT, sp.bs[1] + 1), 1, min(nZ, 9))), ('gen_trace_header', (nT // 2,)),
               ('get_trace', (nT // 2, 1, min(nZ, 5)))]
    else:
        nI, nX, nZ = sp.shape
        ops = [('read_inline', (nI // 2,)), ('read_crossline', (nX - 1,)), ('read_zslice', (nZ // 2,)), ('read_volume', ()),
               ('read_subvolume', (1, nI, 0, nX - 1, 1, nZ)), ('get_trace', (sp.ntr - 1,)), ('get_trace', (0, 1, min(nZ, 6))),
               ('read_correlated_diagonal', (0,)), ('read_anticorrelated_diagonal', (nX - 1,)),
               ('gen_trace_header', (sp.ntr // 2,)), ('gen_trace_header', (0,), {'load_all_headers': True})]
        if sp.ntr != sp.grid_traces:
            # irregular: traces after the holes (compact ordinal != grid position)
            ops += [('gen_trace_header', (sp.ntr - 1,)), ('gen_trace_header', (sp.ntr - 2,), {'load_all_headers': True})]
    for k in sp.stored[:2]:
        ops.append(('get_tracefield_values', (k,)))
    return ops


def digest(r):
    """What construction makes observable."""
    out = [r.n_samples, r.tracecount, bytes(r.file_text_header), bytes(r.file_binary_header), r.get_source_data_hash(),
           np.asarray(r.zslices).tobytes()]
    if r.is_3d:
        out += [np.asarray(r.ilines).tobytes(), np.asarray(r.xlines).tobytes()]
    return ('ok', tuple(out))


def run_op_guarded(r, op):
    try:
        return reads.run_op(r, op)
    except monitors.ContractBreach as e:
        return ('breach', str(e))


class GateController(threading.Thread):
    """Releases the per-request gates of a FakeBlob in a seeded order among the requests in flight."""

    def __init__(self, blob, rng, mode):
        super().__init__(daemon=True)
        self.blob, self.rng, self.mode = blob, rng, mode
        self.stop = False
        self.released = set()
        self.order = []

    def run(self):
        last, stable_since = -1, time.time()
        while not self.stop:
            with self.blob.lock:
                waiting = [k for k in self.blob.gates if k not in self.released]
            if not waiting:
                time.sleep(0.0005)
                continue
            if len(waiting) != last:
                last, stable_since = len(waiting), time.time()
            if time.time() - stable_since < 0.003 and len(waiting) < 20:
                time.sleep(0.0005)
                continue
            if self.mode == 'reverse':
                k = max(waiting)
            elif self.mode == 'last-first':
                k = max(waiting) if not self.order else min(waiting)
            else:
                k = self.rng.choice(waiting)
            self.released.add(k)
            self.order.append(k)
            self.blob.gates[k].set()
            last = -1



def run_memcheck_case(case):
    """thorough tier: the named bounded workload under valgrind memcheck, contracts off; only errors with a frame in libzfp/zfpy count."""
    import os
    from .. import memcheck
    pin = os.environ.get('PYTHONPATH', '').split(os.pathsep)[0]
    r = memcheck.run_workload(case['workload'], pin)
    bad = []
    if not r.get('done'):
        return {'inconclusive': 'memcheck workload %s did not finish: rc=%s %s %s' % (case['workload'], r.get('rc'), r.get('stdout_tail'), r.get('stderr_tail')),
                'counters': {'memcheck_runs': 1}}
    for e in r['errors_in_codec'][:5]:
        bad.append({'sig': 'memcheck:%s-in-codec' % e['kind'], 'detail': '%s: %s; frames %s' % (case['workload'], e['what'], e['frames'])})
    if 'ACCEPTED-SUBMINIMUM' in r.get('stdout_tail', ''):
        bad.append({'sig': 'memcheck:sub-minimum-rate-accepted', 'detail': r['stdout_tail']})
    return {'violations': bad, 'counters': {'memcheck_runs': 1, 'memcheck_errors_total_any_frame': r['errors_total'], 'memcheck_errors_in_codec': len(r['errors_in_codec'])},
            'strata': ['memcheck:' + case['workload']], 'key': case['id']}


O_SCRIPT = r'''
import sys, json
import numpy as np
from vz import monitors, env
from seismic_zfp.read import SgzReader
path = sys.argv[1]
ops = [('read_inline', (2,)), ('read_crossline', (1,)), ('read_zslice', (3,)), ('get_trace', (7,)), ('gen_trace_header', (3,)), ('read_subvolume', (0, 5, 0, 5, 0, 20))]
out = []
assert_active = False
try:
    assert False
except AssertionError:
    assert_active = True
for backend in ('local', 'blob'):
    for op in ops:
        h = monitors.MonFile(path) if backend == 'local' else monitors.FakeBlob(path)
        r = SgzReader(h)
        mark = len(h.log)
        truth = np.asarray(getattr(r, op[0])(*op[1])) if op[0] != 'gen_trace_header' else dict(getattr(r, op[0])(*op[1]))
        n = len(h.log) - mark
        r.loader.clear_cache()
        for k in range(mark, mark + n):
            for kind in ('empty', 'half'):
                h = monitors.MonFile(path, {k: kind}) if backend == 'local' else monitors.FakeBlob(path, {k: kind})
                r = SgzReader(h)
                try:
                    got = getattr(r, op[0])(*op[1])
                    same = (dict(got) == truth) if op[0] == 'gen_trace_header' else (np.asarray(got).shape == truth.shape and np.array_equal(np.asarray(got), truth))
                    out.append([backend, op[0], k, kind, 'same' if same else 'WRONG'])
                except Exception as e:
                    out.append([backend, op[0], k, kind, 'raised'])
                r.loader.clear_cache()
print('RESULT ' + json.dumps({'assert_active': assert_active, 'runs': out}))
'''


def run_python_O_case(case, ctx):
    import json
    import os
    import subprocess
    path = os.path.join(env.TEST_DATA, 'small_4bit.sgz')
    e = dict(os.environ)
    e['PYTHONPATH'] = os.pathsep.join([e.get('PYTHONPATH', ''), env.VERIF])
    p = subprocess.run([env.PY, '-O', '-c', O_SCRIPT, path], capture_output=True, text=True, env=e, timeout=600)
    line = next((ln for ln in p.stdout.splitlines() if ln.startswith('RESULT ')), None)
    if line is None:
        return {'inconclusive': 'python -O sub-run did not report: rc=%s %s' % (p.returncode, (p.stderr or '')[-300:]), 'counters': {'optimised_runs': 0}}
    res = json.loads(line[7:])
    if res['assert_active']:
        return {'inconclusive': 'assert statements are active in the -O sub-run', 'counters': {'optimised_runs': 0}}
    bad = []
    for backend, name, k, kind, outcome in res['runs']:
        if outcome == 'WRONG':
            bad.append({'sig': 'python-O:%s:%s:returned-wrong-data-after-%s' % (backend, name, kind), 'detail': 'range read %d made %s under python -O: the call returned data differing from the truth' % (k, kind)})
    seen, uniq = set(), []
    for v in bad:
        if v['sig'] not in seen:
            seen.add(v['sig'])
            uniq.append(v)
    return {'violations': uniq, 'counters': {'optimised_runs': len(res['runs']), 'optimised_raised': sum(1 for r_ in res['runs'] if r_[4] == 'raised')},
            'strata': ['interpreter:-O'], 'key': case['id'], 'nontrivial': len(res['runs']) > 10}


def run_case(case, ctx):
    if case.get('kind') == 'memcheck':
        return run_memcheck_case(case)
    if case.get('kind') == 'python-O':
        return run_python_O_case(case, ctx)
    import seismic_zfp
    from seismic_zfp.read import SgzReader
    rng = ctx['rng']
    path, truth = files.build(case['file'], ctx['scratch'])
    sp = oracles.Spec(path)
    backend = case['backend']
    proxy = ctx['zfpy_proxy']

    def handle(faults=None, gated=False):
        if backend == 'local':
            return monitors.MonFile(path, faults)
        return monitors.FakeBlob(path, faults, gate_order=True if gated else None)

    def finish(h, r):
        try:
            if r is not None:
                _clear(r)
            if backend == 'local':
                h.close()
        except Exception:  # noqa
            pass

    ops = op_list(sp, rng)
    if case.get('wide'):
        ops = [('read_crossline', (3,)), ('read_zslice', (5,))]
    bad = []
    counters = {'injections': 0, 'fault_runs': 0, 'raised': 0, 'same_result': 0, 'range_reads_seen': 0, 'order_runs': 0,
                'inflight_max': 0, 'pairs': 0, 'construct_faults': 0, 'retries_after_fault': 0, 'retries_ok': 0}
    # ---- fault-free reference
    h = handle()
    r = SgzReader(h)
    n_open = len(h.log)
    true_digest = digest(r)
    finish(h, r)
    truth_of, nreads = {}, {}
    for op in ops:
        h = handle()
        if backend == 'blob':
            h.latency = 0.002        # the downloads of one fan-out overlap (up to 20 in flight) and complete almost together
        r = SgzReader(h)
        mark = len(h.log)
        import sys as _sys
        swi = _sys.getswitchinterval()
        if backend == 'blob':
            _sys.setswitchinterval(1e-6)     # ... and the interpreter hands over between the pool threads as often as it can (any hand-over point is legal)
        try:
            if backend == 'blob':
                # ... at any statement boundary of the loader (yield injection, monitors.YieldInjector)
                with monitors.YieldInjector(seed=len(truth_of)) as yi:
                    truth_of[repr(op)] = run_op_guarded(r, op)
                counters['injected_yields'] = counters.get('injected_yields', 0) + yi.yields
            else:
                truth_of[repr(op)] = run_op_guarded(r, op)
        finally:
            _sys.setswitchinterval(swi)
        nreads[repr(op)] = len(h.log) - mark
        counters['range_reads_seen'] += len(h.log)
        finish(h, r)
        if truth_of[repr(op)][0] != 'ok':
            return {'violations': [], 'inconclusive': 'fault-free %s%s does not return (%s)' % (op[0], op[1], truth_of[repr(op)][:2]),
                    'counters': counters}
        if backend == 'blob':
            # "the true data": what the serial local backend returns for the same call (itself checked against the O-SPEC decode by C02);
            # the parallel backend with no fault at all must agree with it
            hl = monitors.MonFile(path)
            rl = SgzReader(hl)
            loc = run_op_guarded(rl, op)
            try:
                _clear(rl)
                hl.close()
            except Exception:  # noqa
                pass
            counters['blob_vs_local_compared'] = counters.get('blob_vs_local_compared', 0) + 1
            if loc != truth_of[repr(op)]:
                bad.append({'sig': 'blob:%s:fault-free-result-differs-from-local-backend' % op[0],
                            'detail': '%s%s: parallel backend %s, local backend %s' % (op[0], op[1], truth_of[repr(op)][:1], loc[:1])})

    # what is asked of the same reader after a failed call (besides repeating it): the other header / trace accessors
    hdr_like = [o for o in ops if o[0] in ('gen_trace_header', 'get_tracefield_values', 'get_trace')]
    def first_of(kind, load_all=None):
        return next((o for o in hdr_like if o[0] == kind and (load_all is None or (len(o) > 2) == load_all)), None)
    kinds_ = {'gen_trace_header': first_of('gen_trace_header', False), 'gen_trace_header-all': first_of('gen_trace_header', True),
              'get_tracefield_values': first_of('get_tracefield_values'), 'get_trace': first_of('get_trace')}
    probe_after = {name: [o for k_, o in kinds_.items() if o is not None and not k_.startswith(name)]
                   for name in ('gen_trace_header', 'get_tracefield_values', 'get_trace')}

    def judge(op, got, faults, injected, what):
        counters['fault_runs'] += 1
        counters['injections'] += injected
        if got[0] == 'exc':
            counters['raised'] += 1
            return
        if got[0] == 'breach':
            bad.append({'sig': '%s:%s:short-buffer-handed-to-codec' % (backend, op[0]),
                        'detail': '%s%s with fault(s) %s (%s): %s' % (op[0], op[1:], faults, what, got[1])})
            return
        exp = truth_of[repr(op)] if op[0] != '<open>' else true_digest
        if got == exp:
            counters['same_result'] += 1
            return
        kinds = sorted(set(faults.values()))
        bad.append({'sig': '%s:%s:returned-wrong-data-after-%s' % (backend, op[0], '+'.join(kinds)),
                    'detail': '%s%s with fault(s) %s (%s; %d injected) returned a result differing from the true one'
                              % (op[0], op[1:], faults, what, injected)})

    # ---- single faults at every position, every kind
    for op in ops:
        n = nreads[repr(op)]
        for k in range(n):
            for kind in KINDS:
                faults = {n_open + k: kind}
                h = handle(faults)
                r = SgzReader(h)
                got = run_op_guarded(r, op)
                judge(op, got, faults, h.injected, 'single')
                if got[0] == 'exc' and kind == 'empty' and probe_after.get(op[0]):
                    # the OTHER accessors first, before any successful repeat of the failed call (on a second reader, same fault)
                    hb = handle(faults)
                    rb = SgzReader(hb)
                    run_op_guarded(rb, op)
                    for op3 in probe_after[op[0]]:
                        got3 = run_op_guarded(rb, op3)
                        counters['probes_before_repeat'] = counters.get('probes_before_repeat', 0) + 1
                        if got3[0] == 'exc':
                            bad.append({'sig': '%s:%s:right-after-failed-%s:fault-free-call-raises-%s' % (backend, op3[0], op[0], got3[1]),
                                        'detail': '%s%s failed with fault %s; the next call %s%s on the same reader (fault-free) raised %s'
                                                  % (op[0], op[1:], faults, op3[0], op3[1:], got3[1])})
                        elif got3[0] == 'breach' or got3 != truth_of[repr(op3)]:
                            bad.append({'sig': '%s:%s:right-after-failed-%s:returned-wrong-data' % (backend, op3[0], op[0]),
                                        'detail': '%s%s failed with fault %s; the next call %s%s on the same reader returned a result differing from the true one'
                                                  % (op[0], op[1:], faults, op3[0], op3[1:])})
                    finish(hb, rb)
                if got[0] == 'exc' and kind in ('exc', 'empty'):
                    # the fault was transient: the same call repeated on the SAME reader now meets no fault; no range
                    # read fails on behalf of the repeat, so it must return the true result (no state left behind by the failed call)
                    got2 = run_op_guarded(r, op)
                    counters['retries_after_fault'] += 1
                    if got2[0] == 'breach' or (got2[0] == 'ok' and got2 != truth_of[repr(op)]):
                        bad.append({'sig': '%s:%s:retry-after-%s-fault-returned-wrong-data' % (backend, op[0], kind),
                                    'detail': '%s%s failed with fault %s; the fault-free repeat on the same reader returned a result differing from the true one'
                                              % (op[0], op[1:], faults)})
                    elif got2[0] == 'ok':
                        counters['retries_ok'] += 1
                    else:
                        # no range read fails on behalf of the repeated call: "otherwise it returns the true data"
                        bad.append({'sig': '%s:%s:fault-free-repeat-after-%s-fault-raises-%s' % (backend, op[0], kind, got2[1]),
                                    'detail': '%s%s failed with fault %s; the fault-free repeat on the same reader raised %s' % (op[0], op[1:], faults, got2[1])})
                    if probe_after.get(op[0]):
                        for op3 in probe_after[op[0]]:
                            got3 = run_op_guarded(r, op3)
                            if got3[0] == 'exc':
                                bad.append({'sig': '%s:%s:after-failed-%s:fault-free-call-raises-%s' % (backend, op3[0], op[0], got3[1]),
                                            'detail': '%s%s failed with fault %s; then the fault-free %s%s on the same reader raised %s'
                                                      % (op[0], op[1:], faults, op3[0], op3[1:], got3[1])})
                            if got3[0] == 'breach' or (got3[0] == 'ok' and got3 != truth_of[repr(op3)]):
                                bad.append({'sig': '%s:%s:after-failed-%s:returned-wrong-data' % (backend, op3[0], op[0]),
                                            'detail': '%s%s failed with fault %s; then %s%s on the same reader returned a result differing from the true one'
                                                      % (op[0], op[1:], faults, op3[0], op3[1:])})
                finish(h, r)
        # ---- pairs
        if n >= 2:
            allp = list(itertools.combinations(range(n), 2))
            pairs = allp if len(allp) <= 28 else rng.sample(allp, case['pairs'])
            for a, b in pairs[: case['pairs'] if len(allp) > 28 else None]:
                faults = {n_open + a: rng.choice(KINDS), n_open + b: rng.choice(KINDS)}
                h = handle(faults)
                r = SgzReader(h)
                got = run_op_guarded(r, op)
                judge(op, got, faults, h.injected, 'pair')
                counters['pairs'] += 1
                finish(h, r)
    # ---- warm reader: a successful call of the same method with other arguments precedes the faulted call, which is then repeated.
    # The failed call must raise or be right, and the fault-free repeat must never return the EARLIER call's data
    def sibling(op):
        name, a = op[0], op[1]
        if sp.is2d:
            nT, nZ = sp.shape
            if name == 'get_trace' and len(a) == 1:
                j = (a[0] + sp.bs[1]) % nT
                return (name, (j,)) if j // sp.bs[1] != a[0] // sp.bs[1] else None
            return None
        nI, nX, nZ = sp.shape
        lim = {'read_inline': (nI, sp.bs[0]), 'read_crossline': (nX, sp.bs[1]), 'read_zslice': (nZ, 4)}.get(name)
        if lim and len(a) == 1:
            n_, g = lim
            g = max(g, 4)
            for j in ((a[0] + g) % n_, 0, n_ - 1):
                if j // g != a[0] // g:
                    return (name, (j,))
            return None
        if name == 'get_trace' and len(a) == 1:
            j = 0 if a[0] != 0 else sp.ntr - 1
            return (name, (j,))
        return None
    for op in ops:
        sib = sibling(op)
        if sib is None:
            continue
        h = handle()
        r = SgzReader(h)
        m0 = len(h.log)
        ref_sib = run_op_guarded(r, sib)
        n_sib = len(h.log) - m0
        finish(h, r)
        if ref_sib[0] != 'ok' or ref_sib == truth_of[repr(op)]:
            continue
        for k in range(nreads[repr(op)]):
            for kind in ('exc', 'empty'):
                faults = {n_open + n_sib + k: kind}
                h = handle(faults)
                r = SgzReader(h)
                run_op_guarded(r, sib)
                got = run_op_guarded(r, op)
                judge(op, got, faults, h.injected, 'single fault after a successful %s%s on the same reader' % (sib[0], sib[1]))
                got2 = run_op_guarded(r, op)
                counters['warm_fault_sequences'] = counters.get('warm_fault_sequences', 0) + 1
                if got2[0] == 'exc':
                    bad.append({'sig': '%s:%s:fault-free-repeat-on-warm-reader-raises-%s' % (backend, op[0], got2[1]),
                                'detail': '%s%s then %s%s with fault %s, then the fault-free repeat raised' % (sib[0], sib[1], op[0], op[1:], faults)})
                if got2[0] == 'breach' or (got2[0] == 'ok' and got2 != truth_of[repr(op)]):
                    bad.append({'sig': '%s:%s:retry-after-%s-fault-on-warm-reader-returned-wrong-data' % (backend, op[0], kind),
                                'detail': '%s%s then %s%s with fault %s, then the fault-free repeat: result differs from the true one%s'
                                          % (sib[0], sib[1], op[0], op[1:], faults, ' (it is the earlier call\'s result)' if got2 == ref_sib else '')})
                finish(h, r)
    # ---- construction-time faults (header blocks; preload)
    for preload in (False, True):
        h = handle()
        r = SgzReader(h, preload=preload)
        n_c = len(h.log)
        finish(h, r)
        probe = ops[0]
        for k in range(n_c):
            for kind in KINDS:
                faults = {k: kind}
                h = handle(faults)
                r = None
                try:
                    r = SgzReader(h, preload=preload)
                    got = digest(r)
                except Exception as e:  # noqa
                    got = ('exc', type(e).__name__)
                counters['construct_faults'] += 1
                judge(('<open>', (preload,)), got, faults, h.injected, 'construction')
                if r is not None:
                    got = run_op_guarded(r, probe)
                    judge(probe, got, faults, 0, 'after faulted construction preload=%s' % preload)
                finish(h, r)
    # ---- emulator path (accessors share the handle)
    if not sp.is2d:
        eops = [('iline', int(sp.ilines()[0])), ('xline', int(sp.xlines()[-1])), ('depth_slice', 1), ('trace', 1), ('header', 0)]
    else:
        eops = [('trace', 1), ('header', 0)]
    for name, arg in eops:
        h = handle()
        f = seismic_zfp.open(h)
        mark = len(h.log)
        exp = reads.norm(getattr(f, name)[arg])
        n = len(h.log) - mark
        for k in range(n):
            for kind in KINDS:
                faults = {mark + k: kind}
                h2 = handle(faults)
                f2 = seismic_zfp.open(h2)
                try:
                    got = ('ok', reads.norm(getattr(f2, name)[arg]))
                except monitors.ContractBreach as e:
                    got = ('breach', str(e))
                except Exception as e:  # noqa
                    got = ('exc', type(e).__name__)
                counters['fault_runs'] += 1
                counters['injections'] += h2.injected
                if got[0] == 'breach':
                    bad.append({'sig': '%s:emulator.%s:short-buffer-handed-to-codec' % (backend, name), 'detail': str(faults)})
                elif got[0] == 'ok' and got[1] != exp:
                    bad.append({'sig': '%s:emulator.%s:returned-wrong-data-after-%s' % (backend, name, kind),
                                'detail': 'f.%s[%s] with fault %s' % (name, arg, faults)})
                elif got[0] == 'exc':
                    counters['raised'] += 1
                else:
                    counters['same_result'] += 1
    # ---- completion orders (blob only)
    if backend == 'blob':
        for op in ops:
            if nreads[repr(op)] < 2:
                continue
            for j in range(case['orders']):
                mode = ['reverse', 'last-first'][j] if j < 2 else 'random'
                h = handle()
                r = SgzReader(h)
                h.gated = True
                ctl = GateController(h, random.Random(rng.randrange(1 << 30)), mode)
                ctl.start()
                got = run_op_guarded(r, op)
                ctl.stop = True
                ctl.join(2)
                counters['order_runs'] += 1
                counters['inflight_max'] = max(counters['inflight_max'], h.maxconc)
                if got != truth_of[repr(op)]:
                    bad.append({'sig': 'blob:%s:result-depends-on-completion-order' % op[0],
                                'detail': '%s%s under completion order %s (mode %s)' % (op[0], op[1:], ctl.order[:30], mode)})
                finish(h, r)
    counters['contract_evaluations'] = proxy.n_decompress
    counters['inflight_max_max'] = counters.pop('inflight_max')
    return {'violations': bad, 'counters': counters,
            'strata': ['backend:' + backend, 'kind:' + ('2d' if sp.is2d else 'irregular' if sp.ntr != sp.grid_traces else '3d'),
                       'layout:' + ('2d' if sp.is2d else 'default' if sp.bs[:2] == (4, 4) else 'zslice' if sp.bs[2] == 4 else 'general')],
            'key': case['id'], 'nontrivial': counters['injections'] > 0}


def sample_view(case, res):
    c = (res or {}).get('counters', {})
    return {'id': case['id'], 'file': case['file'], 'backend': case['backend'], 'fault_runs': c.get('fault_runs'),
            'injections': c.get('injections'), 'raised': c.get('raised'), 'same_result': c.get('same_result')}


def finalize(tier, cases, results, counters, strata):
    reasons = []
    if counters.get('optimised_runs', 0) == 0:
        reasons.append('the fault sweep under python -O did not run')
    for s in ['backend:local', 'backend:blob', 'kind:3d', 'kind:2d', 'kind:irregular', 'layout:default', 'layout:zslice',
              'layout:general']:
        if s not in strata:
            reasons.append('required stratum not hit: ' + s)
    if counters.get('injections', 0) == 0:
        reasons.append('no fault was injected')
    if counters.get('warm_fault_sequences', 0) == 0:
        reasons.append('no fault was injected on a warm reader')
    if counters.get('retries_ok', 0) == 0:
        reasons.append('no fault-free repeat of a failed call was observed to succeed')
    if counters.get('contract_evaluations', 0) == 0:
        reasons.append('native-boundary contract never evaluated')
    if counters.get('inflight_max_max', 0) < 2:
        reasons.append('remote fan-out was never concurrent (max in flight %s)' % counters.get('inflight_max_max'))
    return {'distinct_fault_points': counters.get('fault_runs', 0)}, reasons

"""SGZ input files for reader-side checks, from JSON-able descriptors.

kinds: fixture (test_data), wspec (harness writer from the specification), numpy (repository's
NumpyConverter).  Reader-side checks use wspec files so they do not depend on the writers being right."""
import glob
import os

import numpy as np

from . import env, gen, oracles

# (rate, blockshape) layout catalogue: default 4x4xN, z-slice NxNx4, general
LAYOUTS_3D = {
    'default': [(0.25, (4, 4, 8192)), (0.5, (4, 4, 4096)), (1, (4, 4, 2048)), (2, (4, 4, 1024)), (4, (4, 4, 512)),
                (8, (4, 4, 256)), (16, (4, 4, 128)), (32, (4, 4, 64))],
    'zslice': [(0.5, (128, 128, 4)), (2, (64, 64, 4)), (8, (32, 32, 4)), (32, (16, 16, 4))],
    'general': [(8, (8, 8, 64)), (8, (16, 16, 16)), (4, (8, 16, 64)), (2, (16, 8, 128)), (16, (8, 8, 32)),
                (1, (32, 32, 32)), (4, (4, 8, 256)), (8, (8, 4, 128)), (32, (4, 8, 32)), (0.5, (16, 16, 256)),
                (0.25, (64, 32, 64)), (2, (8, 8, 256))],
}
LAYOUTS_2D = [(1, (1, 4, 8192)), (2, (1, 4, 4096)), (4, (1, 4, 2048)), (8, (1, 4, 1024)), (16, (1, 4, 512)),
              (32, (1, 4, 256)), (4, (1, 16, 512)), (2, (1, 16, 1024)), (8, (1, 64, 64)), (1, (1, 256, 128)),
              (16, (1, 16, 128)), (32, (1, 8, 128)), (8, (1, 16, 256)), (4, (1, 128, 64))]


def fixtures():
    out = []
    for p in sorted(glob.glob(os.path.join(env.TEST_DATA, '*.sgz')) +
                    glob.glob(os.path.join(env.TEST_DATA, 'padding', '*.sgz'))):
        out.append(os.path.relpath(p, env.TEST_DATA))
    return out


def axis(start, step, n):
    return start + step * np.arange(n)


def wspec_desc(rng, shape, rate, bs, **kw):
    d = {'kind': 'wspec', 'shape': list(shape), 'rate': rate, 'bs': list(bs),
         'version': rng.choice([[0, 2, 9], [0, 2, 9], [0, 2, 1], [0, 1, 9], [0, 1, 6], [0, 2, 2]]),
         'il': [rng.choice([0, 1, 10, -7, 1000]), rng.choice([1, 1, 2, -1, 5, -3])],
         'xl': [rng.choice([0, 1, 100, -20]), rng.choice([1, 1, 3, -2])],
         't0': rng.choice([0, 0, 8, -12, 100]), 'dt': rng.choice([4000, 2000, 1000, 500, 250, 3000, 125, 333]),
         'narr': rng.choice([0, 1, 2, 3, 5]), 'cubeseed': rng.randrange(1 << 20),
         'valkind': rng.choice(['smooth', 'smooth', 'smooth', 'noise', 'ramp', 'neg', 'huge', 'tiny'])}
    if len(shape) == 3 and rng.random() < 0.2:
        d['f64'] = rng.choice([[8.5, 2.5], [-100.25, 0.5], [0.0, 1.001], [100.0, 4.0]])     # float64 sample axis (as in ZGY-sourced files)
    d.update(kw)
    if tuple(d['version']) <= (0, 1, 6) and len(shape) == 3:
        d['dt'] = max(1000, d['dt'] // 1000 * 1000)    # files up to 0.1.6 can only express whole milliseconds
    return d


def header_arrays_for(desc, grid, rng_seed):
    """Deterministic header arrays for a generated file: inline/crossline grids first, then others."""
    r = np.random.default_rng(rng_seed)
    narr = desc.get('narr', 2)
    arrays = {}
    if len(desc['shape']) == 3:
        nI, nX, _ = desc['shape']
        il, xl = axis(*desc['il'], nI), axis(*desc['xl'], nX)
        cand = [(189, np.broadcast_to(il[:, None], (nI, nX)).reshape(-1)),
                (193, np.broadcast_to(xl, (nI, nX)).reshape(-1))]
    else:
        cand = [(1, np.arange(1, grid + 1)), (5, np.arange(grid) * 2 + 7)]
    extra = [73, 77, 21, 181, 185, 41, 225]
    for k in extra:
        a = r.integers(-2 ** 31, 2 ** 31 - 1, size=grid)
        if k == 73:
            a = np.where(r.random(grid) < 0.5, 0, a)      # a shared array (see dups) holding zeros at many traces
        cand.append((k, a))
    for k, a in cand[:narr]:
        arrays[k] = np.asarray(a, dtype=np.int64)
    return arrays


def build(desc, scratch, name='in.sgz'):
    """Returns (path, truth) where truth has what the harness knows about the file content."""
    if desc['kind'] == 'fixture':
        return os.path.join(env.TEST_DATA, desc['rel']), {}
    path = scratch.file(name)
    shape = tuple(desc['shape'])
    data = gen.cube(shape, desc.get('cubeseed', 0), desc.get('valkind', 'smooth'))
    truth = {'data': data}
    if desc['kind'] == 'wspec':
        is2d = len(shape) == 2
        grid = shape[0] if is2d else shape[0] * shape[1]
        arrays = header_arrays_for(desc, grid, desc.get('cubeseed', 0))
        consts = {115: shape[-1], 117: desc.get('dt', 4000) % 32768, 29: -3, 31: 7}
        dups = {}
        if 73 in arrays:
            dups[185] = 73 if 185 not in arrays else None
            dups[81] = 73
            dups = {k: v for k, v in dups.items() if v}
        tracecount, pad_mode = None, 'edge'
        if desc.get('holes'):
            # irregular: zero the holes, header arrays zero at holes, tracecount < grid
            nI, nX, nZ = shape
            mask = np.ones(nI * nX, bool)
            mask[np.asarray(desc['holes'])] = False
            data = data.copy()
            data.reshape(nI * nX, nZ)[~mask] = 0
            for k in arrays:
                arrays[k] = np.where(mask, arrays[k], 0)
            tracecount, pad_mode = int(mask.sum()), 'zero'
            truth['mask'] = mask
            truth['data'] = data
        kw = {}
        if not is2d:
            kw = dict(ilines=axis(*desc['il'], shape[0]), xlines=axis(*desc['xl'], shape[1]))
        oracles.write_sgz(path, data, desc['rate'], tuple(desc['bs']), t0_ms=desc.get('t0', 0),
                          dt_us=desc.get('dt', 4000), arrays=arrays, consts=consts, dups=dups,
                          version=tuple(desc.get('version', (0, 2, 9))), tracecount=tracecount, pad_mode=pad_mode,
                          filehdr=bytes((i * 7 + 3) % 251 for i in range(3600)), f64=desc.get('f64'), source_code=10 if desc.get('f64') else 20, **kw)
        truth.update(arrays=arrays, consts=consts, dups=dups)
        return path, truth
    if desc['kind'] == 'numpy':
        from seismic_zfp.conversion import NumpyConverter
        nI, nX, nZ = shape
        il, xl = axis(*desc['il'], nI), axis(*desc['xl'], nX)
        samples = desc.get('t0', 0) + desc.get('dt', 4000) / 1000.0 * np.arange(nZ)
        with env.quiet():
            with NumpyConverter(data, ilines=il, xlines=xl, samples=samples) as c:
                c.run(path, bits_per_voxel=desc['rate'], blockshape=tuple(desc['bs']))
        return path, truth
    raise ValueError(desc['kind'])


def small_shape_for(bs, rng, blocks=(1, 3), cap=2_000_000, rate=None):
    """A cube shape spanning the given number of blocks per axis (with unaligned ends), capped in
    padded voxels."""
    for _ in range(50):
        shp = []
        for b in bs:
            nb = rng.randint(*blocks)
            hi = nb * b
            lo = max(2, (nb - 1) * b + 1)
            shp.append(rng.choice([hi, lo, max(2, hi - 1), max(2, hi - 3), rng.randint(lo, hi)]))
        padded = np.prod([oracles.pad(s, b) for s, b in zip(shp, bs)])
        if padded <= cap:
            return tuple(int(s) for s in shp)
    return tuple(int(min(b, 5)) if b > 5 else int(b) for b in bs)

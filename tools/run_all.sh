#!/bin/bash
# run every registered quick (or $TIER) check with the given seed; print one summary line each
seed=${1:-0}
for p in C01 C02 C03 C04 C05 C06 C07 C08 C09 C10 C11 C12 C13 C14 C15 C16 C17 C18 C19 C20; do
  VERIF_SEED=$seed /venv/bin/python -m vz check $p --tier ${TIER:-quick} > /tmp/vz-runall-$p.log 2>&1; rc=$?
  echo "rc=$rc $(tail -1 /tmp/vz-runall-$p.log | cut -c1-160)"
  if [ $rc -ne 0 ]; then grep -E "what:|INCONCL" /tmp/vz-runall-$p.log | head -5 | cut -c1-300; fi
done

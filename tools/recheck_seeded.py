#!/venv/bin/python
"""Kill matrix over the kept seeded changes: apply each seeded/<id>/patch.diff to a scratch copy of /repo
(outside /repo and /verif), run the quick check of its own property (and, with --others P1,P2.., further checks;
with --thorough the thorough tier when quick misses) with VERIF_REPO=<copy>, and update meta.json
(caught_by, signatures).  usage: tools/recheck_seeded.py [ids...] [--others C01,C02] [--thorough] [--fresh] [--jobs N]"""
import glob, json, os, re, shutil, subprocess, sys, tempfile, time
from concurrent.futures import ThreadPoolExecutor

PY = '/venv/bin/python'
FRESH = False      # --fresh: forget earlier results of other checks (they may predate later fixes / strengthening)


def run_check(prop, tier, repo, workers):
    e = dict(os.environ, VERIF_REPO=repo, VERIF_WORKERS=str(workers))
    t0 = time.time()
    p = subprocess.run([PY, '-m', 'vz', 'check', prop, '--tier', tier], cwd='/verif', env=e, capture_output=True, text=True, timeout=4 * 3600)
    out = p.stdout + p.stderr
    return {'rc': p.returncode, 'signatures': re.findall(r'what: (.*?) \(x\d+\)', out)[:6], 'wall_s': round(time.time() - t0, 1)}


def one(sid, others, thorough, workers):
    dst = '/verif/seeded/' + sid
    meta = json.load(open(dst + '/meta.json'))
    prop = meta['property']
    d = tempfile.mkdtemp(prefix='vzseed-')
    try:
        subprocess.run(['rsync', '-a', '--exclude', '.git', '--exclude', 'out', '/repo/', d + '/'], check=True)
        p = subprocess.run(['patch', '-p1', '-s', '-i', dst + '/patch.diff'], cwd=d, capture_output=True, text=True)
        if p.returncode:
            return sid, 'PATCH FAILED ' + (p.stdout + p.stderr)[-200:]
        res = {} if FRESH else meta.get('checks_quick', {})
        for q in [prop] + [o for o in others if o != prop]:
            res[q] = run_check(q, 'quick', d, workers)
        if res[prop]['rc'] != 1 and thorough:
            res[prop + ':thorough'] = run_check(prop, 'thorough', d, workers)
        meta['checks_quick'] = res
        meta['caught_by'] = sorted(k for k, r in res.items() if r['rc'] == 1)
        meta['rechecked_at_verif_commit'] = subprocess.run(['git', '-C', '/verif', 'rev-parse', '--short', 'HEAD'], capture_output=True, text=True).stdout.strip()
        meta['rechecked_at_repo_commit'] = subprocess.run(['git', '-C', '/repo', 'rev-parse', '--short', 'HEAD'], capture_output=True, text=True).stdout.strip()
        json.dump(meta, open(dst + '/meta.json', 'w'), indent=1)
        return sid, 'own=%s rc=%s %s caught_by=%s' % (prop, res[prop]['rc'], res[prop]['signatures'][:2], meta['caught_by'])
    finally:
        shutil.rmtree(d, ignore_errors=True)


def main():
    global FRESH
    args = sys.argv[1:]
    if '--fresh' in args:
        FRESH = True
        args.remove('--fresh')
    others, thorough, jobs = [], False, 4
    ids = []
    i = 0
    while i < len(args):
        if args[i] == '--others':
            others = args[i + 1].split(','); i += 2
        elif args[i] == '--thorough':
            thorough = True; i += 1
        elif args[i] == '--jobs':
            jobs = int(args[i + 1]); i += 2
        else:
            ids.append(args[i]); i += 1
    if not ids:
        ids = sorted(os.path.basename(os.path.dirname(m)) for m in glob.glob('/verif/seeded/*/meta.json'))
    workers = max(2, 16 // jobs)
    with ThreadPoolExecutor(jobs) as ex:
        for sid, msg in ex.map(lambda s: one(s, others, thorough, workers), ids):
            print(sid, msg, flush=True)


if __name__ == '__main__':
    main()
